package checks

import (
	"context"
	"fmt"
	"sync"
	"sync/atomic"
	"testing"
	"time"

	"github.com/golang/protobuf/proto"
	"github.com/golang/protobuf/ptypes/any"
	"pgregory.net/rapid"

	"verif/vh"
)

// C10 target T8 (DESIGN.md §3 C10): ClassifyMsg / OnMsg of the tss-lib adapters.
// Frames captured from a fault-free run of the same configuration are replayed,
// byte-mutated or protobuf-structure-mutated and handed to one party - singly or
// as a burst - while that party is initialised but not yet running, running, or
// finished. Nothing may panic, OnMsg must return, the running call must return by
// its deadline, and input under a transport sender that is not a member of the
// session must leave the session successful.

type c10aMut struct {
	Frame  int    // index into the pool of reference frames
	Op     int    // mutation operator
	A, B   int    // operator parameters
	Raw    []byte // operator parameter
	Sender int    // 0 = the frame's genuine sender, 1 = another member, 2 = a non-member
	Count  int    // burst length (copies of the same mutated frame)
}

type c10aCase struct {
	Scheme string // eddsa | ecdsa
	Phase  string // keygen | sign
	N, T   int
	State  string // init | running | finished
	After  int    // running: inject once this many frames were emitted by the session
	Target int    // index of the party that receives the input
	Muts   []c10aMut
}

const c10aOps = 12

func mutateFrame(pool []emitted, m c10aMut) []byte {
	src := pool[m.Frame%len(pool)].Bytes
	b := append([]byte(nil), src...)
	pos := func(x int) int {
		if len(b) == 0 {
			return 0
		}
		return ((x % len(b)) + len(b)) % len(b)
	}
	switch m.Op {
	case 0: // replay unchanged
	case 1: // truncate
		b = b[:pos(m.A)]
	case 2: // extend
		b = append(b, m.Raw...)
	case 3: // flip a bit
		if len(b) > 0 {
			b[pos(m.A)] ^= 1 << uint(m.B%8)
		}
	case 4: // set a byte to a boundary value
		if len(b) > 0 {
			b[pos(m.A)] = []byte{0, 1, 0x7f, 0x80, 0xff}[m.B%5]
		}
	case 5: // splice with another frame
		o := pool[(m.Frame+1+m.B)%len(pool)].Bytes
		cut := pos(m.A)
		oc := 0
		if len(o) > 0 {
			oc = m.A % len(o)
		}
		b = append(b[:cut:cut], o[oc:]...)
	case 6: // delete a range
		i, j := pos(m.A), pos(m.B)
		if i > j {
			i, j = j, i
		}
		b = append(b[:i:i], b[j:]...)
	case 7: // raw bytes
		b = append([]byte(nil), m.Raw...)
	case 8, 9, 10, 11: // protobuf level: keep the envelope valid, alter type or content
		var a any.Any
		if err := proto.Unmarshal(b, &a); err != nil {
			return b
		}
		var o any.Any
		_ = proto.Unmarshal(pool[(m.Frame+1+m.B)%len(pool)].Bytes, &o)
		switch m.Op {
		case 8: // another message type with this content
			a.TypeUrl = o.TypeUrl
		case 9: // this type with another message's content
			a.Value = o.Value
		case 10: // empty content
			a.Value = nil
		case 11: // content truncated inside the envelope
			if len(a.Value) > 0 {
				a.Value = a.Value[:m.A%len(a.Value)]
			}
		}
		if nb, err := proto.Marshal(&a); err == nil {
			b = nb
		}
	}
	return b
}

var (
	poolMu    sync.Mutex
	poolCache = map[string]*c10aPool{}
)

type c10aPool struct {
	frames []emitted
	shares [][]byte // key shares of the configuration (for the sign phase)
}

// referencePool returns frames of a fault-free run of (scheme, phase, n, t) and the key material it used.
func referencePool(c c10aCase) (*c10aPool, error) {
	poolMu.Lock()
	defer poolMu.Unlock()
	k := fmt.Sprintf("%s/%s/%d/%d", c.Scheme, c.Phase, c.N, c.T)
	if p, ok := poolCache[k]; ok {
		return p, nil
	}
	fx, err := keyMaterial(c19Case{Scheme: c.Scheme, N: c.N, T: c.T, Live: c.Scheme == "eddsa"})
	if err != nil {
		return nil, err
	}
	p := &c10aPool{shares: fx.Shares}
	if c.Phase == "keygen" {
		p.frames = fx.Frames
	} else {
		s := newSession(c.Scheme, c.N, c.T, "signing")
		d := make([]byte, 32)
		d[31] = 7
		if _, _, err := s.sign(fx.Shares, d, 2*time.Minute); err != nil {
			return nil, err
		}
		p.frames = s.frames
	}
	if len(p.frames) == 0 {
		return nil, fmt.Errorf("reference run emitted no frames")
	}
	poolCache[k] = p
	return p, nil
}

func runC10Adapters(c c10aCase) *vh.Outcome {
	o := &vh.Outcome{Key: fmt.Sprintf("%+v", c)}
	o.Classes = append(o.Classes, "scheme="+c.Scheme, "phase="+c.Phase, "state="+c.State)
	pool, err := referencePool(c)
	if err != nil {
		o.Discard = "no-reference-frames"
		o.Info = map[string]interface{}{"error": err.Error()}
		return o
	}
	ids := make([]uint16, c.N)
	for i := range ids {
		ids[i] = uint16(i + 1)
	}
	target := c.Target % c.N
	site := func(what string) string {
		return fmt.Sprintf("C10/adapter-%s/%s/%s/%s", what, c.Scheme, c.Phase, c.State)
	}

	// the input, prepared up front
	type input struct {
		data  []byte
		from  uint16
		bcast bool
		count int
	}
	var inputs []input
	onlyNonMembers := true
	bigBurst := false
	for _, m := range c.Muts {
		f := pool.frames[m.Frame%len(pool.frames)]
		from := f.From
		switch m.Sender {
		case 1:
			from = ids[(int(f.From)+m.B)%c.N] // attributed to another member (what a misbehaving member can do under its own name)
		case 2:
			from = uint16(c.N + 1 + m.B%5) // not a member of the session
		}
		if from == ids[target] {
			from = ids[(target+1)%c.N]
		}
		if m.Sender != 2 {
			onlyNonMembers = false
		}
		if m.Count > 1000 {
			bigBurst = true
		}
		inputs = append(inputs, input{data: mutateFrame(pool.frames, m), from: from, bcast: f.Broadcast, count: m.Count})
	}
	total := 0
	for _, in := range inputs {
		total += in.count
	}
	if total > 1000 {
		// more input than the adapter's queue holds: it sheds, and what it sheds may be a member's message, so
		// "input from non-members leaves the session successful" is only asserted below the capacity
		onlyNonMembers = false
	}
	if bigBurst {
		o.Classes = append(o.Classes, "burst>1000")
	}
	if onlyNonMembers {
		o.Classes = append(o.Classes, "only-non-member-senders")
	}

	var parsed int32
	classifier := newAdapter(c.Scheme, 1)
	inject := func(p adapter) *vh.Failure {
		done := make(chan string, 1)
		go func() {
			msg := ""
			defer func() {
				if r := recover(); r != nil {
					msg = fmt.Sprintf("panic: %v", r)
				}
				done <- msg
			}()
			for _, in := range inputs {
				if _, _, err := classifier.ClassifyMsg(in.data); err == nil {
					atomic.AddInt32(&parsed, 1)
				}
				for k := 0; k < in.count; k++ {
					p.OnMsg(in.data, in.from, in.bcast)
				}
			}
		}()
		select {
		case msg := <-done:
			if msg != "" {
				return vh.Failf(site("panic"), "ClassifyMsg/OnMsg: %s", msg)
			}
			return nil
		case <-time.After(20 * time.Second):
			return vh.Failf(site("onmsg-blocked"), "OnMsg did not return within 20 s (the caller - the node's message dispatcher - is wedged); state %s, %d inputs, longest burst %d", c.State, len(inputs), maxCount(c.Muts))
		}
	}
	start := func(p adapter, ctx context.Context) error {
		if c.Phase == "keygen" {
			_, err := p.KeyGen(ctx)
			return err
		}
		d := make([]byte, 32)
		d[0] = 9
		_, err := p.Sign(ctx, d)
		return err
	}
	waitCall := func(ch chan error, limit time.Duration, what string) (error, *vh.Failure) {
		select {
		case err := <-ch:
			return err, nil
		case <-time.After(limit):
			return nil, vh.Failf(site("call-hang"), "%s did not return within %v", what, limit)
		}
	}

	switch c.State {
	case "init":
		p := newAdapter(c.Scheme, ids[target])
		if c.Phase == "sign" {
			if err := p.SetShareData(pool.shares[target]); err != nil {
				o.Discard = "share-unusable"
				return o
			}
		}
		p.Init(ids, c.T, func([]byte, bool, uint16) {})
		if o.Fail = inject(p); o.Fail != nil {
			return o
		}
		if c.Scheme == "ecdsa" && c.Phase == "keygen" {
			break // starting ECDSA key generation costs tens of seconds of prime search; the queue was exercised above
		}
		// the call that follows must still come back by its deadline
		ctx, cancel := context.WithTimeout(context.Background(), 300*time.Millisecond)
		defer cancel()
		ch := make(chan error, 1)
		go func() { ch <- start(p, ctx) }()
		if _, f := waitCall(ch, 20*time.Second, c.Phase+" after the input"); f != nil {
			o.Fail = f
			return o
		}
	case "running", "finished":
		if c.Scheme == "ecdsa" && c.Phase == "keygen" {
			o.Discard = "ecdsa-keygen-not-run-live"
			return o
		}
		// one complete session with the input injected into the target (running: once After frames were emitted;
		// finished: after every call has returned)
		session := func(limit time.Duration) (allOK bool, firstErr string, fail *vh.Failure, discard string) {
			var mu sync.Mutex
			parties := make([]adapter, c.N)
			for i := range parties {
				parties[i] = newAdapter(c.Scheme, ids[i])
				if c.Phase == "sign" {
					if err := parties[i].SetShareData(pool.shares[i]); err != nil {
						return false, "", nil, "share-unusable"
					}
				}
			}
			emittedCount := 0
			after := c.After % (len(pool.frames) + 1)
			trigger := make(chan struct{})
			var once sync.Once
			for i, p := range parties {
				from := ids[i]
				p.Init(ids, c.T, func(msg []byte, bc bool, to uint16) {
					mu.Lock()
					emittedCount++
					fire := c.State == "running" && emittedCount > after
					mu.Unlock()
					if fire {
						once.Do(func() { close(trigger) })
					}
					for j, q := range parties {
						if ids[j] != from && (bc || ids[j] == to) {
							q.OnMsg(msg, from, bc)
						}
					}
				})
			}
			ctx, cancel := context.WithTimeout(context.Background(), limit)
			defer cancel()
			chans := make([]chan error, c.N)
			for i, p := range parties {
				chans[i] = make(chan error, 1)
				go func(p adapter, ch chan error) { ch <- start(p, ctx) }(p, chans[i])
			}
			var injFail *vh.Failure
			injDone := make(chan struct{})
			if c.State == "running" {
				go func() {
					defer close(injDone)
					select {
					case <-trigger:
					case <-time.After(500 * time.Millisecond): // the session emitted fewer frames than expected: inject late
					}
					injFail = inject(parties[target])
				}()
			} else {
				close(injDone)
			}
			allOK = true
			for i, ch := range chans {
				err, f := waitCall(ch, limit+30*time.Second, fmt.Sprintf("%s of party %d", c.Phase, ids[i]))
				if f != nil {
					return false, "", f, ""
				}
				if err != nil {
					allOK = false
					if firstErr == "" {
						firstErr = err.Error()
					}
				}
			}
			<-injDone
			if injFail != nil {
				return allOK, firstErr, injFail, ""
			}
			if c.State == "finished" {
				if !allOK {
					return false, firstErr, nil, "undisturbed-session-failed"
				}
				if f := inject(parties[target]); f != nil {
					return allOK, firstErr, f, ""
				}
			}
			return allOK, firstErr, nil, ""
		}
		limit := 4 * time.Second
		if c.Scheme == "ecdsa" {
			limit = 15 * time.Second
		}
		allOK, firstErr, f, discard := session(limit)
		if f == nil && discard == "" && c.State == "running" && onlyNonMembers && !allOK {
			// input that must be ignored, yet the session failed: rule out a slow machine before judging
			o.Classes = append(o.Classes, "rerun-with-long-deadline")
			allOK, firstErr, f, discard = session(2 * time.Minute)
			if f == nil && discard == "" && !allOK {
				f = vh.Failf(site("non-member-input-had-effect"), "all input came under transport senders that are not members of the session, yet the session did not complete successfully (twice, the second time with a 2 minute deadline): %s", firstErr)
			}
		}
		if f != nil {
			o.Fail = f
			return o
		}
		if discard != "" {
			o.Discard = discard
			return o
		}
		if allOK {
			o.Classes = append(o.Classes, "session-succeeded")
		} else {
			o.Classes = append(o.Classes, "session-aborted-by-member-input")
			o.Info = map[string]interface{}{"first_error": firstErr}
		}
	}
	o.NonTrivial = parsed > 0
	if parsed > 0 {
		o.Classes = append(o.Classes, "input-passed-envelope-parsing")
	}
	return o
}

func maxCount(ms []c10aMut) int {
	m := 0
	for _, x := range ms {
		if x.Count > m {
			m = x.Count
		}
	}
	return m
}

func genC10Adapters(t *rapid.T) c10aCase {
	c := c10aCase{Scheme: "eddsa"}
	if rapid.IntRange(0, 9).Draw(t, "ecdsa") == 0 {
		c.Scheme = "ecdsa"
	}
	c.Phase = rapid.SampledFrom([]string{"keygen", "sign"}).Draw(t, "phase")
	nt := [][2]int{{2, 1}, {3, 2}}
	if c.Scheme == "eddsa" {
		nt = append(nt, [2]int{3, 1})
	}
	p := rapid.SampledFrom(nt).Draw(t, "nt")
	c.N, c.T = p[0], p[1]
	c.State = rapid.SampledFrom([]string{"init", "running", "running", "finished"}).Draw(t, "state")
	if c.Scheme == "ecdsa" && c.Phase == "keygen" {
		c.State = "init"
	}
	c.After = rapid.IntRange(0, 12).Draw(t, "after")
	c.Target = rapid.IntRange(0, c.N-1).Draw(t, "target")
	nm := rapid.IntRange(1, 4).Draw(t, "nmuts")
	allOutside := rapid.IntRange(0, 3).Draw(t, "allOutside") == 0
	for i := 0; i < nm; i++ {
		m := c10aMut{Frame: rapid.IntRange(0, 63).Draw(t, "frame"), Op: rapid.IntRange(0, c10aOps-1).Draw(t, "op"),
			A: rapid.IntRange(0, 4096).Draw(t, "a"), B: rapid.IntRange(0, 64).Draw(t, "b"),
			Sender: rapid.SampledFrom([]int{0, 0, 0, 1, 2}).Draw(t, "sender")}
		if allOutside {
			m.Sender = 2
		}
		if m.Op == 2 || m.Op == 7 {
			m.Raw = rapid.SliceOfN(rapid.Byte(), 0, 64).Draw(t, "raw")
		}
		m.Count = rapid.SampledFrom([]int{1, 1, 1, 1, 2, 3, 17, 1001, 1100}).Draw(t, "count")
		c.Muts = append(c.Muts, m)
	}
	return c
}

func TestC10Adapters(t *testing.T) {
	vh.Prop[c10aCase]{ID: "C10", Test: "TestC10Adapters", Run: runC10Adapters, Gen: genC10Adapters}.Main(t)
}
