package checks

import (
	"context"
	"encoding/json"
	"fmt"
	"sort"
	"testing"
	"time"

	"verif/vh"
)

// C11 at the level of the tss-lib adapters: KeyGen and Sign return an error -
// never panic, never block indefinitely - on a vanished peer, an expired
// context, and a failing local precondition (DESIGN.md §3 C11).

type c11aCase struct {
	Scheme string
	Fault  string // peer-absent-sign | peer-absent-keygen | short-deadline-keygen | digest-not-signable-no-deadline | garbage-share-data | altered-share-data
	// Variant (altered-share-data): which alteration of a genuine share, see c11aAlter
	Variant int `json:",omitempty"`
}

// c11aAlter: stored share data that is unusable in a less obvious way than "{not json" - it is JSON, often the genuine
// share with one thing missing. Returns nil when the variant does not exist.
func c11aAlter(good []byte, v int) ([]byte, string) {
	consts := []string{"{}", "null", "[]", "0", "\"share\"", "{\"BigXj\":[null]}", "{\"BigXj\":[null,null],\"Ks\":[null,null]}", "{\"Xi\":1,\"ShareID\":2}", "{\"ECDSAPub\":null,\"EDDSAPub\":null}"}
	if v < len(consts) {
		return []byte(consts[v]), "constant " + consts[v]
	}
	v -= len(consts)
	var m map[string]json.RawMessage
	if err := json.Unmarshal(good, &m); err != nil {
		return nil, ""
	}
	keys := make([]string, 0, len(m))
	for k := range m {
		keys = append(keys, k)
	}
	sort.Strings(keys)
	// per field: removed, null, empty array, empty object, number
	repl := []string{"", "null", "[]", "{}", "7"}
	if v < len(keys)*len(repl) {
		k, r := keys[v/len(repl)], repl[v%len(repl)]
		out := map[string]json.RawMessage{}
		for kk, vv := range m {
			out[kk] = vv
		}
		what := "field " + k + " removed"
		if r == "" {
			delete(out, k)
		} else {
			out[k] = json.RawMessage(r)
			what = "field " + k + " = " + r
		}
		b, _ := json.Marshal(out)
		return b, what
	}
	v -= len(keys) * len(repl)
	switch v {
	case 0:
		return good[:len(good)/2], "genuine share cut in half"
	case 1:
		return append(append([]byte(nil), good...), good...), "genuine share twice"
	}
	return nil, ""
}

func runC11Adapters(c c11aCase) *vh.Outcome {
	o := &vh.Outcome{NonTrivial: true, Key: c.Scheme + "/" + c.Fault}
	o.Classes = append(o.Classes, "scheme="+c.Scheme, "fault="+c.Fault)
	type result struct {
		err   error
		panic string
	}
	call := func(limit time.Duration, f func() error) (*result, bool) {
		ch := make(chan *result, 1)
		go func() {
			r := &result{}
			defer func() {
				if p := recover(); p != nil {
					r.panic = fmt.Sprint(p)
				}
				ch <- r
			}()
			r.err = f()
		}()
		select {
		case r := <-ch:
			return r, true
		case <-time.After(limit):
			return nil, false
		}
	}
	judge := func(what string, r *result, returned bool, limit time.Duration) {
		switch {
		case !returned:
			o.Fail = vh.Failf(fmt.Sprintf("C11/adapter-hang/%s/%s", c.Scheme, c.Fault), "%s did not return within %v", what, limit)
		case r.panic != "":
			o.Fail = vh.Failf(fmt.Sprintf("C11/adapter-panic/%s/%s", c.Scheme, c.Fault), "%s panicked: %s", what, r.panic)
		case r.err == nil:
			o.Fail = vh.Failf(fmt.Sprintf("C11/adapter-no-error/%s/%s", c.Scheme, c.Fault), "%s returned success although it cannot have succeeded", what)
		}
	}
	var fx *fixture
	if c.Fault == "peer-absent-sign" || c.Fault == "digest-not-signable-no-deadline" || c.Fault == "altered-share-data" {
		var err error
		fx, err = keyMaterial(c19Case{Scheme: c.Scheme, N: 2, T: 1, Live: c.Scheme == "eddsa"})
		if err != nil {
			o.Discard = "no-key-material"
			return o
		}
	}
	switch c.Fault {
	case "peer-absent-sign":
		s := newSession(c.Scheme, 2, 1, "signing")
		_ = s.parties[0].SetShareData(fx.Shares[0])
		ctx, cancel := context.WithTimeout(context.Background(), time.Second)
		defer cancel()
		r, ok := call(15*time.Second, func() error { _, err := s.parties[0].Sign(ctx, make([]byte, 32)); return err })
		judge("Sign with an absent peer and a 1s deadline", r, ok, 15*time.Second)
	case "peer-absent-keygen":
		s := newSession(c.Scheme, 2, 1, "keygen")
		limit := 20 * time.Second
		d := 2 * time.Second
		if c.Scheme == "ecdsa" {
			d, limit = 90*time.Second, 150*time.Second // safe-prime generation comes first
		}
		ctx, cancel := context.WithTimeout(context.Background(), d)
		defer cancel()
		r, ok := call(limit, func() error { _, err := s.parties[0].KeyGen(ctx); return err })
		judge(fmt.Sprintf("KeyGen with an absent peer and a %v deadline", d), r, ok, limit)
	case "short-deadline-keygen":
		s := newSession(c.Scheme, 2, 1, "keygen")
		ctx, cancel := context.WithTimeout(context.Background(), 50*time.Millisecond)
		defer cancel()
		r, ok := call(60*time.Second, func() error { _, err := s.parties[0].KeyGen(ctx); return err })
		judge("KeyGen with a 50ms deadline", r, ok, 60*time.Second)
	case "digest-not-signable-no-deadline":
		// ECDSA: a digest that is not below the group order is refused by the library's own validation; the call must
		// then return an error also with a context without deadline (both parties take part)
		s := newSession(c.Scheme, 2, 1, "signing")
		d := make([]byte, 32)
		for i := range d {
			d[i] = 0xFF
		}
		for i, p := range s.parties {
			_ = p.SetShareData(fx.Shares[i])
		}
		ctx, cancel := context.WithCancel(context.Background())
		defer cancel()
		go func() { _, _ = s.parties[1].Sign(ctx, d) }()
		var sig []byte
		r, ok := call(20*time.Second, func() error { var err error; sig, err = s.parties[0].Sign(ctx, d); return err })
		if ok && r.panic == "" && r.err == nil {
			pk, _ := s.parties[0].ThresholdPK()
			if verifySig(c.Scheme, pk, d, sig) {
				o.Classes = append(o.Classes, "digest-signable-after-all")
				return o // the scheme can sign it: nothing to refuse
			}
		}
		judge("Sign of a digest the library refuses, context without deadline", r, ok, 20*time.Second)
	case "altered-share-data":
		bad, what := c11aAlter(fx.Shares[0], c.Variant)
		if bad == nil {
			o.Discard = "no-such-variant"
			return o
		}
		o.Classes = append(o.Classes, "altered-share-data")
		s := newSession(c.Scheme, 2, 1, "signing")
		_ = s.parties[1].SetShareData(fx.Shares[1])
		ctx, cancel := context.WithTimeout(context.Background(), 2*time.Second)
		defer cancel()
		go func() {
			defer func() { _ = recover() }()
			_, _ = s.parties[1].Sign(ctx, make([]byte, 32))
		}()
		r, ok := call(20*time.Second, func() error {
			if err := s.parties[0].SetShareData(bad); err != nil {
				return err
			}
			_, err := s.parties[0].Sign(ctx, make([]byte, 32))
			return err
		})
		if ok && r.panic == "" && r.err == nil {
			o.Classes = append(o.Classes, "altered-share-still-usable") // e.g. a field the signing protocol does not read
			return o
		}
		judge(fmt.Sprintf("SetShareData/Sign (2s deadline, the peer takes part) with stored share data = %s", what), r, ok, 20*time.Second)
	case "garbage-share-data":
		s := newSession(c.Scheme, 2, 1, "signing")
		r, ok := call(10*time.Second, func() error {
			if err := s.parties[0].SetShareData([]byte("{not json")); err != nil {
				return err
			}
			_, err := s.parties[0].Sign(context.Background(), make([]byte, 32))
			return err
		})
		judge("SetShareData/Sign with unusable share data", r, ok, 10*time.Second)
	}
	return o
}

func TestC11Adapters(t *testing.T) {
	p := vh.Prop[c11aCase]{ID: "C11", Test: "TestC11Adapters", Run: runC11Adapters}
	if vh.EnvStr("VERIF_REPLAY_IN") != "" {
		p.Main(t)
		return
	}
	st := vh.NewStats("C11", "TestC11Adapters")
	defer st.Flush()
	p.Enumerate(t, st, func(yield func(c11aCase) bool) {
		for _, scheme := range []string{"eddsa", "ecdsa"} {
			for _, f := range []string{"garbage-share-data", "short-deadline-keygen", "digest-not-signable-no-deadline", "peer-absent-sign", "peer-absent-keygen"} {
				if scheme == "ecdsa" && f == "peer-absent-keygen" && !vh.Thorough() {
					continue // needs safe-prime generation (tens of seconds): thorough only
				}
				if !yield(c11aCase{Scheme: scheme, Fault: f}) {
					return
				}
			}
			for v := 0; v < 200; v++ {
				if !yield(c11aCase{Scheme: scheme, Fault: "altered-share-data", Variant: v}) {
					return
				}
			}
		}
	})
	st.Note("TestC11Adapters: tss-lib adapters x {unusable share data (not JSON; JSON constants; the genuine share with each field removed / null / [] / {} / a number; cut in half; twice), 50ms key-generation deadline, digest the library refuses with a context without deadline, absent peer during Sign / KeyGen}")
}
