package checks

import (
	"context"
	"crypto/ecdsa"
	"crypto/ed25519"
	"crypto/x509"
	"encoding/json"
	"fmt"
	"os"
	"path/filepath"
	"sort"
	"sync"
	"testing"
	"time"

	ecdsaad "github.com/IBM/TSS/mpc/binance/ecdsa"
	eddsaad "github.com/IBM/TSS/mpc/binance/eddsa"
	"github.com/golang/protobuf/proto"
	"github.com/golang/protobuf/ptypes/any"
	"pgregory.net/rapid"

	"verif/vh"
)

// C19: tss-lib adapters - receiver-side classification, distinct rounds, and
// signatures only for the requested digest (DESIGN.md §3 C19).

type nopLogger struct{}

func (nopLogger) Debugf(string, ...interface{}) {}
func (nopLogger) Warnf(string, ...interface{})  {}
func (nopLogger) Errorf(string, ...interface{}) {}

// adapter is the common surface of both adapters (types.KeyGenerator + types.Signer).
type adapter interface {
	ClassifyMsg(msgBytes []byte) (uint8, bool, error)
	Init(parties []uint16, threshold int, sendMsg func(msg []byte, isBroadcast bool, to uint16))
	OnMsg(msgBytes []byte, from uint16, broadcast bool)
	KeyGen(ctx context.Context) ([]byte, error)
	SetShareData(shareData []byte) error
	Sign(ctx context.Context, msg []byte) ([]byte, error)
	ThresholdPK() ([]byte, error)
}

func newAdapter(scheme string, id uint16) adapter {
	if scheme == "ecdsa" {
		return ecdsaad.NewParty(id, nopLogger{})
	}
	return eddsaad.NewParty(id, nopLogger{})
}

type emitted struct {
	From      uint16 `json:"from"`
	Bytes     []byte `json:"bytes"`
	Broadcast bool   `json:"broadcast"`
	To        uint16 `json:"to"`
	Phase     string `json:"phase"`
}

// session wires n fresh adapters together with a direct dispatcher that records every emitted frame.
type session struct {
	mu      sync.Mutex
	parties []adapter
	ids     []uint16
	frames  []emitted
	phase   string
}

func newSession(scheme string, n, t int, phase string) *session {
	s := &session{phase: phase}
	for i := 1; i <= n; i++ {
		s.ids = append(s.ids, uint16(i))
		s.parties = append(s.parties, newAdapter(scheme, uint16(i)))
	}
	for i, p := range s.parties {
		from := s.ids[i]
		p.Init(append([]uint16(nil), s.ids...), t, func(msg []byte, isBroadcast bool, to uint16) {
			s.mu.Lock()
			s.frames = append(s.frames, emitted{From: from, Bytes: append([]byte(nil), msg...), Broadcast: isBroadcast, To: to, Phase: s.phase})
			s.mu.Unlock()
			for j, q := range s.parties {
				if s.ids[j] == from {
					continue
				}
				if isBroadcast || s.ids[j] == to {
					q.OnMsg(msg, from, isBroadcast)
				}
			}
		})
	}
	return s
}

func (s *session) keygen(timeout time.Duration) ([][]byte, error) {
	ctx, cancel := context.WithTimeout(context.Background(), timeout)
	defer cancel()
	shares := make([][]byte, len(s.parties))
	errs := make([]error, len(s.parties))
	var wg sync.WaitGroup
	for i, p := range s.parties {
		i, p := i, p
		wg.Add(1)
		go func() {
			defer wg.Done()
			shares[i], errs[i] = p.KeyGen(ctx)
		}()
	}
	wg.Wait()
	for i, e := range errs {
		if e != nil {
			return nil, fmt.Errorf("party %d: %w", s.ids[i], e)
		}
	}
	return shares, nil
}

func (s *session) sign(shares [][]byte, digest []byte, timeout time.Duration) ([][]byte, []byte, error) {
	ctx, cancel := context.WithTimeout(context.Background(), timeout)
	defer cancel()
	for i, p := range s.parties {
		if err := p.SetShareData(shares[i]); err != nil {
			return nil, nil, fmt.Errorf("party %d cannot load its share: %w", s.ids[i], err)
		}
	}
	sigs := make([][]byte, len(s.parties))
	errs := make([]error, len(s.parties))
	var wg sync.WaitGroup
	for i, p := range s.parties {
		i, p := i, p
		wg.Add(1)
		go func() {
			defer wg.Done()
			sigs[i], errs[i] = p.Sign(ctx, digest)
		}()
	}
	wg.Wait()
	for i, e := range errs {
		if e != nil {
			return nil, nil, fmt.Errorf("party %d: %w", s.ids[i], e)
		}
	}
	pk, err := s.parties[0].ThresholdPK()
	return sigs, pk, err
}

func typeURL(b []byte) string {
	var a any.Any
	if err := proto.Unmarshal(b, &a); err != nil {
		return ""
	}
	return a.TypeUrl
}

// classifyOracle: (a) receiver-side class == routing flag, no error; (b) distinct broadcast-class types of one phase get distinct rounds.
func classifyOracle(scheme string, frames []emitted, classifier adapter) (*vh.Failure, map[string]bool) {
	seen := map[string]bool{}
	type rt struct {
		phase string
		round uint8
	}
	roundOf := map[rt]string{}
	for _, f := range frames {
		url := typeURL(f.Bytes)
		seen[f.Phase+":"+url] = true
		round, bc, err := classifier.ClassifyMsg(f.Bytes)
		if err != nil {
			return vh.Failf("C19/classify-error/"+scheme, "ClassifyMsg failed on a frame the library emitted (%s): %v", url, err), seen
		}
		if bc != f.Broadcast {
			return vh.Failf("C19/classification-differs-from-routing/"+scheme, "message type %s is routed by the library as broadcast=%v but the receiver classifies it as broadcast=%v", url, f.Broadcast, bc), seen
		}
		if bc {
			k := rt{f.Phase, round}
			if prev, ok := roundOf[k]; ok && prev != url {
				return vh.Failf("C19/round-collision/"+scheme, "broadcast-class message types %s and %s of the %s phase are both given round %d", prev, url, f.Phase, round), seen
			}
			roundOf[k] = url
		}
	}
	return nil, seen
}

func verifySig(scheme string, pk, digest, sig []byte) bool {
	if scheme == "ecdsa" {
		k, err := x509.ParsePKIXPublicKey(pk)
		if err != nil {
			return false
		}
		ek, ok := k.(*ecdsa.PublicKey)
		return ok && ecdsa.VerifyASN1(ek, digest, sig)
	}
	return len(pk) == ed25519.PublicKeySize && ed25519.Verify(ed25519.PublicKey(pk), digest, sig)
}

// --- case ---------------------------------------------------------------------------------

type c19Case struct {
	Scheme string
	N, T   int
	Digest []byte
	Live   bool // live key generation (otherwise committed key fixtures)
}

func genDigest19(t *rapid.T) []byte {
	switch rapid.IntRange(0, 9).Draw(t, "dkind") {
	case 0:
		d := rapid.SliceOfN(rapid.Byte(), 32, 32).Draw(t, "d")
		d[0] = 0 // leading zero byte
		return d
	case 1:
		d := rapid.SliceOfN(rapid.Byte(), 32, 32).Draw(t, "d")
		d[0], d[1], d[2] = 0, 0, 0
		return d
	case 2:
		return make([]byte, 32)
	case 3:
		d := make([]byte, 32)
		for i := range d {
			d[i] = 0xFF
		}
		return d
	case 4:
		return rapid.SliceOfN(rapid.Byte(), 1, 64).Draw(t, "d")
	case 5:
		return rapid.SliceOfN(rapid.Byte(), 48, 48).Draw(t, "d") // SHA-384
	case 6:
		return rapid.SliceOfN(rapid.Byte(), 64, 64).Draw(t, "d") // SHA-512
	default:
		return rapid.SliceOfN(rapid.Byte(), 32, 32).Draw(t, "d")
	}
}

type fixture struct {
	Scheme string `json:"scheme"`
	N, T   int
	Shares [][]byte  `json:"shares"`
	Frames []emitted `json:"frames"` // key-generation frames captured when the fixture was made
}

func fixturePath(scheme string, n, t int) string {
	return filepath.Join("testdata", "fixtures", fmt.Sprintf("%s-n%d-t%d.json", scheme, n, t))
}

func loadFixture(scheme string, n, t int) (*fixture, error) {
	b, err := os.ReadFile(fixturePath(scheme, n, t))
	if err != nil {
		return nil, err
	}
	var f fixture
	return &f, json.Unmarshal(b, &f)
}

var (
	liveMu    sync.Mutex
	liveCache = map[string]*fixture{}
)

func keyMaterial(c c19Case) (*fixture, error) {
	if !c.Live {
		return loadFixture(c.Scheme, c.N, c.T)
	}
	liveMu.Lock()
	defer liveMu.Unlock()
	k := fmt.Sprintf("%s/%d/%d", c.Scheme, c.N, c.T)
	if f, ok := liveCache[k]; ok && c.Scheme == "ecdsa" {
		return f, nil // ECDSA key generation takes tens of seconds: once per (n,t) and process
	}
	s := newSession(c.Scheme, c.N, c.T, "keygen")
	shares, err := s.keygen(10 * time.Minute)
	if err != nil {
		return nil, err
	}
	f := &fixture{Scheme: c.Scheme, N: c.N, T: c.T, Shares: shares, Frames: s.frames}
	liveCache[k] = f
	return f, nil
}

func runC19(c c19Case) *vh.Outcome {
	o := &vh.Outcome{}
	fx, err := keyMaterial(c)
	if err != nil {
		if c.Live {
			o.Fail = vh.Failf("C19/keygen-failed/"+c.Scheme, "live key generation (n=%d t=%d) failed: %v", c.N, c.T, err)
		} else {
			o.Discard = "no-fixture"
		}
		return o
	}
	classifier := newAdapter(c.Scheme, 1)
	if f, _ := classifyOracle(c.Scheme, fx.Frames, classifier); f != nil {
		o.Fail = f
		return o
	}
	s := newSession(c.Scheme, c.N, c.T, "signing")
	sigs, pk, err := s.sign(fx.Shares, c.Digest, 2*time.Minute)
	lead := len(c.Digest) > 0 && c.Digest[0] == 0
	o.Key = fmt.Sprintf("%s/%d/%d/%x", c.Scheme, c.N, c.T, c.Digest)
	o.NonTrivial = lead || len(c.Digest) != 32
	o.Classes = append(o.Classes, "scheme="+c.Scheme, fmt.Sprintf("n=%d,t=%d", c.N, c.T))
	if lead {
		o.Classes = append(o.Classes, "digest-leading-zero")
	}
	if len(c.Digest) != 32 {
		o.Classes = append(o.Classes, "digest-len!=32")
	}
	f, seen := classifyOracle(c.Scheme, s.frames, classifier)
	var urls []string
	for u := range seen {
		urls = append(urls, u)
	}
	sort.Strings(urls)
	o.Info = map[string]interface{}{"message_types_seen": urls, "digest_len": len(c.Digest), "live_keygen": c.Live}
	if f != nil {
		o.Fail = f
		return o
	}
	if err != nil {
		// a refusal is allowed by the property ("a signature is returned only for the digest that the caller asked to sign")
		o.Classes = append(o.Classes, "sign-refused")
		return o
	}
	for i, sg := range sigs {
		if !verifySig(c.Scheme, pk, c.Digest, sg) {
			o.Fail = vh.Failf("C19/signature-not-for-requested-digest/"+c.Scheme, "Sign returned a signature on party %d that does not verify for the digest that was passed in (%x, %d bytes) under ThresholdPK() (n=%d t=%d)", i+1, c.Digest, len(c.Digest), c.N, c.T)
			return o
		}
	}
	o.Classes = append(o.Classes, "signature-verified")
	return o
}

var nts = [][2]int{{2, 1}, {3, 2}, {3, 1}}

func TestC19EdDSA(t *testing.T) {
	vh.Prop[c19Case]{ID: "C19", Test: "TestC19EdDSA", Run: runC19, Gen: func(t *rapid.T) c19Case {
		nt := rapid.SampledFrom([][2]int{{2, 1}, {3, 2}, {3, 1}, {4, 3}, {4, 2}, {5, 3}}).Draw(t, "nt")
		return c19Case{Scheme: "eddsa", N: nt[0], T: nt[1], Digest: genDigest19(t), Live: true}
	}}.Main(t)
}

func TestC19ECDSA(t *testing.T) {
	live := vh.Thorough() || vh.EnvStr("VERIF_C19_LIVE") != ""
	vh.Prop[c19Case]{ID: "C19", Test: "TestC19ECDSA", Run: runC19, Gen: func(t *rapid.T) c19Case {
		nt := rapid.SampledFrom(nts[:2]).Draw(t, "nt")
		return c19Case{Scheme: "ecdsa", N: nt[0], T: nt[1], Digest: genDigest19(t), Live: live}
	}}.Main(t)
}

// TestMakeFixtures regenerates the committed ECDSA key fixtures (run by hand: VERIF_MAKE_FIXTURES=1).
func TestMakeFixtures(t *testing.T) {
	if os.Getenv("VERIF_MAKE_FIXTURES") == "" {
		t.Skip("set VERIF_MAKE_FIXTURES=1")
	}
	_ = os.MkdirAll(filepath.Join("testdata", "fixtures"), 0o755)
	for _, nt := range nts[:2] {
		s := newSession("ecdsa", nt[0], nt[1], "keygen")
		shares, err := s.keygen(20 * time.Minute)
		if err != nil {
			t.Fatal(err)
		}
		b, _ := json.Marshal(&fixture{Scheme: "ecdsa", N: nt[0], T: nt[1], Shares: shares, Frames: s.frames})
		if err := os.WriteFile(fixturePath("ecdsa", nt[0], nt[1]), b, 0o644); err != nil {
			t.Fatal(err)
		}
	}
}

// --- sender binding: a frame delivered under a transport sender that is not a member of the session has no effect ---------

type c19BindCase struct {
	Members  []int // three session members (ascending)
	Absent   int   // index of the member that stays silent
	Outsider int   // transport sender that is not a member
}

func runC19Bind(c c19BindCase) *vh.Outcome {
	o := &vh.Outcome{NonTrivial: true, Key: fmt.Sprintf("%+v", c)}
	ids := u16(c.Members)
	// a genuine round-1 frame of some party, produced in an unrelated session in which the outsider IS a member
	donorIDs := []uint16{uint16(c.Outsider), 60001, 60002}
	var donorFrame []byte
	{
		var mu sync.Mutex
		p := eddsaad.NewParty(donorIDs[0], nopLogger{})
		p.Init(donorIDs, 2, func(msg []byte, bc bool, to uint16) {
			mu.Lock()
			if donorFrame == nil && bc {
				donorFrame = append([]byte(nil), msg...)
			}
			mu.Unlock()
		})
		ctx, cancel := context.WithTimeout(context.Background(), 300*time.Millisecond)
		_, _ = p.KeyGen(ctx)
		cancel()
	}
	if donorFrame == nil {
		o.Discard = "no-donor-frame"
		return o
	}
	run := func(withOutsider bool) map[string]bool {
		var mu sync.Mutex
		types := map[string]bool{}
		parties := map[uint16]adapter{}
		for i, id := range ids {
			if i == c.Absent {
				continue
			}
			parties[id] = eddsaad.NewParty(id, nopLogger{})
		}
		observed := ids[(c.Absent+1)%3]
		for id, p := range parties {
			id := id
			p.Init(ids, 2, func(msg []byte, bc bool, to uint16) {
				if id == observed {
					mu.Lock()
					types[typeURL(msg)] = true
					mu.Unlock()
				}
				for qid, q := range parties {
					if qid != id && (bc || qid == to) {
						q.OnMsg(msg, id, bc)
					}
				}
			})
		}
		ctx, cancel := context.WithTimeout(context.Background(), 700*time.Millisecond)
		defer cancel()
		var wg sync.WaitGroup
		for _, p := range parties {
			p := p
			wg.Add(1)
			go func() { defer wg.Done(); _, _ = p.KeyGen(ctx) }()
		}
		if withOutsider {
			time.Sleep(100 * time.Millisecond)
			parties[observed].OnMsg(donorFrame, uint16(c.Outsider), true)
		}
		wg.Wait()
		mu.Lock()
		defer mu.Unlock()
		return types
	}
	base := run(false)
	with := run(true)
	o.Info = map[string]interface{}{"types_without_outsider": len(base), "types_with_outsider": len(with)}
	for tpe := range with {
		if !base[tpe] {
			o.Fail = vh.Failf("C19/sender-binding/eddsa", "session %v with member %d absent: after a frame was delivered under transport sender %d, which is not a member, the observed party emitted message type %s which it does not emit otherwise (the frame was consumed under a member's identity)", c.Members, c.Members[c.Absent], c.Outsider, tpe)
			return o
		}
	}
	return o
}

func u16(in []int) []uint16 {
	out := make([]uint16, len(in))
	for i, v := range in {
		out[i] = uint16(v)
	}
	return out
}

func TestC19Bind(t *testing.T) {
	vh.Prop[c19BindCase]{ID: "C19", Test: "TestC19Bind", Run: runC19Bind, Gen: func(t *rapid.T) c19BindCase {
		a := rapid.IntRange(1, 20).Draw(t, "a")
		b := a + rapid.IntRange(1, 20).Draw(t, "db")
		cc := b + rapid.IntRange(1, 20).Draw(t, "dc")
		members := []int{a, b, cc}
		out := rapid.IntRange(0, cc+5).Filter(func(x int) bool { return x != a && x != b && x != cc }).Draw(t, "outsider")
		return c19BindCase{Members: members, Absent: rapid.IntRange(0, 2).Draw(t, "absent"), Outsider: out}
	}}.Main(t)
}

// --- sender binding, ECDSA: frames under a transport sender that is not a member must not disturb a complete session ----

type c19BindECase struct {
	Outsider int // transport sender that is not a member (the fixture's members are 1..N): 0 lies below every member
	Every    int // a foreign copy follows every Every-th genuine delivery
	Digest   []byte
}

func runC19BindECDSA(c c19BindECase) *vh.Outcome {
	o := &vh.Outcome{NonTrivial: true, Key: fmt.Sprintf("%+v", c)}
	fx, err := loadFixture("ecdsa", 2, 1)
	if err != nil {
		o.Discard = "no-fixture"
		return o
	}
	// donor frames: a complete signing session of the same parties on another digest
	donor := newSession("ecdsa", 2, 1, "signing")
	other := append([]byte{0x5A}, c.Digest[1:]...)
	if _, _, err := donor.sign(fx.Shares, other, 2*time.Minute); err != nil {
		o.Discard = "donor-session-failed"
		return o
	}
	byType := map[string][]emitted{}
	for _, f := range donor.frames {
		byType[typeURL(f.Bytes)] = append(byType[typeURL(f.Bytes)], f)
	}
	// the session under test: every genuine delivery may be followed by a frame of the same type from the donor session,
	// delivered under the non-member transport sender
	ids := []uint16{1, 2}
	parties := []adapter{newAdapter("ecdsa", 1), newAdapter("ecdsa", 2)}
	var mu sync.Mutex
	count, foreign := 0, 0
	for i, p := range parties {
		from := ids[i]
		p.Init(ids, 1, func(msg []byte, bc bool, to uint16) {
			for j, q := range parties {
				if ids[j] == from || !(bc || ids[j] == to) {
					continue
				}
				q.OnMsg(msg, from, bc)
				mu.Lock()
				count++
				inject := count%c.Every == 0
				mu.Unlock()
				if inject {
					if ds := byType[typeURL(msg)]; len(ds) > 0 {
						q.OnMsg(ds[count%len(ds)].Bytes, uint16(c.Outsider), bc)
						mu.Lock()
						foreign++
						mu.Unlock()
					}
				}
			}
		})
		if err := p.SetShareData(fx.Shares[i]); err != nil {
			o.Discard = "share-unusable"
			return o
		}
	}
	ctx, cancel := context.WithTimeout(context.Background(), 40*time.Second)
	defer cancel()
	sigs := make([][]byte, 2)
	errs := make([]error, 2)
	var wg sync.WaitGroup
	for i, p := range parties {
		i, p := i, p
		wg.Add(1)
		go func() { defer wg.Done(); sigs[i], errs[i] = p.Sign(ctx, c.Digest) }()
	}
	wg.Wait()
	o.Info = map[string]interface{}{"foreign_frames": foreign, "genuine_deliveries": count}
	pk, _ := parties[0].ThresholdPK()
	for i := range parties {
		if errs[i] != nil {
			o.Fail = vh.Failf("C19/sender-binding/ecdsa", "a complete signing session of parties 1,2 failed on party %d (%v) after %d frames of another session were delivered under transport sender %d, which is not a member: they were consumed under a member's identity", ids[i], errs[i], foreign, c.Outsider)
			return o
		}
		if !verifySig("ecdsa", pk, c.Digest, sigs[i]) {
			o.Fail = vh.Failf("C19/sender-binding/ecdsa", "party %d returned a signature that does not verify after %d frames were delivered under non-member transport sender %d", ids[i], foreign, c.Outsider)
			return o
		}
	}
	return o
}

func TestC19BindECDSA(t *testing.T) {
	vh.Prop[c19BindECase]{ID: "C19", Test: "TestC19BindECDSA", Run: runC19BindECDSA, Gen: func(t *rapid.T) c19BindECase {
		d := rapid.SliceOfN(rapid.Byte(), 32, 32).Draw(t, "digest")
		d[0] |= 1
		return c19BindECase{Outsider: rapid.SampledFrom([]int{0, 0, 3, 7, 65535}).Draw(t, "outsider"), Every: rapid.IntRange(1, 3).Draw(t, "every"), Digest: d}
	}}.Main(t)
}
