// Package asnmut mutates the exported raw ASN.1 structs of the repository
// (structs whose fields are []byte, [][]byte, []int or int64/string) at the
// level of their structure: shortened arrays, emptied or truncated
// components, components swapped or replaced. The result is re-encoded with
// encoding/asn1, so it always passes the outer parser and reaches the logic
// behind it.
package asnmut

import (
	"encoding/asn1"
	"fmt"
	"reflect"
)

type Op struct {
	Field int
	Kind  int
	Arg   int
	Donor []byte
}

// Apply mutates *v (a pointer to a struct) in place and describes what it did.
func Apply(v interface{}, op Op) string {
	rv := reflect.ValueOf(v).Elem()
	n := rv.NumField()
	if n == 0 {
		return "no fields"
	}
	fi := abs(op.Field) % n
	f := rv.Field(fi)
	name := rv.Type().Field(fi).Name
	switch f.Kind() {
	case reflect.Slice:
		switch f.Type().Elem().Kind() {
		case reflect.Uint8: // []byte
			b := append([]byte(nil), f.Bytes()...)
			b, d := mutBytes(b, op.Kind, op.Arg, op.Donor)
			f.SetBytes(b)
			return fmt.Sprintf("%s: %s", name, d)
		case reflect.Slice: // [][]byte
			l := f.Len()
			elems := make([][]byte, l)
			for i := 0; i < l; i++ {
				elems[i] = append([]byte(nil), f.Index(i).Bytes()...)
			}
			var d string
			switch abs(op.Kind) % 9 {
			case 0:
				if l > 0 {
					elems = elems[:l-1]
				}
				d = "drop last element"
			case 1:
				if l > 0 {
					elems = elems[1:]
				}
				d = "drop first element"
			case 2:
				elems = nil
				d = "drop all elements"
			case 3:
				if l > 0 {
					elems = append(elems, append([]byte(nil), elems[l-1]...))
				}
				d = "duplicate last element"
			case 4:
				elems = append(elems, []byte{})
				d = "append empty element"
			case 5:
				if l > 0 {
					elems[abs(op.Arg)%l] = []byte{}
				}
				d = "empty one element"
			case 6:
				if l > 0 {
					i := abs(op.Arg) % l
					if len(elems[i]) > 0 {
						elems[i] = elems[i][:len(elems[i])-1]
					}
				}
				d = "truncate one element"
			case 7:
				if l > 1 {
					i, j := abs(op.Arg)%l, (abs(op.Arg)+1)%l
					elems[i], elems[j] = elems[j], elems[i]
				}
				d = "swap two elements"
			default:
				if l > 0 {
					elems[abs(op.Arg)%l] = append([]byte(nil), op.Donor...)
				}
				d = "replace one element with donor bytes"
			}
			nv := reflect.MakeSlice(f.Type(), len(elems), len(elems))
			for i := range elems {
				nv.Index(i).SetBytes(elems[i])
			}
			f.Set(nv)
			return fmt.Sprintf("%s: %s (%d -> %d elements)", name, d, l, len(elems))
		case reflect.Int: // []int
			l := f.Len()
			switch abs(op.Kind) % 4 {
			case 0:
				if l > 0 {
					f.Set(f.Slice(0, l-1))
				}
				return name + ": drop last int"
			case 1:
				f.Set(reflect.Append(f, reflect.ValueOf(op.Arg)))
				return name + ": append int"
			case 2:
				if l > 0 {
					f.Index(abs(op.Arg) % l).SetInt(int64(op.Arg))
				}
				return name + ": overwrite int"
			default:
				f.Set(reflect.MakeSlice(f.Type(), 0, 0))
				return name + ": empty"
			}
		}
	case reflect.Int64, reflect.Int:
		f.SetInt(int64(op.Arg))
		return name + ": set int"
	case reflect.String:
		f.SetString(string(op.Donor))
		return name + ": set string"
	}
	return name + ": untouched"
}

func mutBytes(b []byte, kind, arg int, donor []byte) ([]byte, string) {
	switch abs(kind) % 8 {
	case 0:
		return []byte{}, "emptied"
	case 1:
		if len(b) > 0 {
			b = b[:len(b)-1]
		}
		return b, "last byte removed"
	case 2:
		if len(b) > 0 {
			b = b[:abs(arg)%len(b)]
		}
		return b, "truncated"
	case 3:
		return append(b, byte(arg)), "one byte appended"
	case 4:
		if len(b) > 0 {
			b[abs(arg)%len(b)] ^= 1 << uint(abs(arg)%8)
		}
		return b, "bit flipped"
	case 5:
		return append([]byte(nil), donor...), "replaced with donor bytes"
	case 6:
		for i := range b {
			b[i] = 0
		}
		return b, "zeroed"
	default:
		for i := range b {
			b[i] = 0xFF
		}
		return b, "all 0xFF"
	}
}

func abs(x int) int {
	if x < 0 {
		return -x
	}
	return x
}

// Reencode unmarshals raw into v (pointer to struct), applies op, marshals again.
func Reencode(raw []byte, v interface{}, op Op) ([]byte, string, error) {
	if _, err := asn1.Unmarshal(raw, v); err != nil {
		return nil, "", err
	}
	d := Apply(v, op)
	out, err := asn1.Marshal(reflect.ValueOf(v).Elem().Interface())
	return out, d, err
}
