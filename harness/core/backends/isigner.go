// Package backends holds the harness-written MPC backends (all robust to
// arbitrary payloads, so that a crash is never theirs).
package backends

import (
	"context"
	"fmt"
	"sort"

	"github.com/IBM/TSS/mpc/bls"

	"verif/core/sim"
	"verif/core/stack"
)

// ISigner is an *interactive* threshold-BLS signer built only from the
// repository's exported pieces (DESIGN.md C01): Sign = local TBLS.Sign,
// broadcast the partial signature (broadcast class, round 1), wait for the
// partial signatures of all other session members, aggregate with the
// library's Verifier, return the threshold signature.
type ISigner struct {
	Party      uint16
	AllParties []uint16 // DKG party list (defines evaluation points)
	T          int
	Logger     *sim.Logger

	w       stack.CtxWaiter
	session []uint16
	send    func(msg []byte, isBroadcast bool, to uint16)
	share   []byte
	sigs    map[uint16][]byte
}

func (s *ISigner) ClassifyMsg(b []byte) (uint8, bool, error) {
	if len(b) < 2 || b[0] != 1 {
		return 0, false, fmt.Errorf("isigner: bad message")
	}
	return 1, true, nil
}

func (s *ISigner) Init(parties []uint16, threshold int, sendMsg func(msg []byte, isBroadcast bool, to uint16)) {
	s.w.Mu.Lock()
	s.session = append([]uint16(nil), parties...)
	s.send = sendMsg
	s.sigs = map[uint16][]byte{}
	s.w.Mu.Unlock()
}

func (s *ISigner) OnMsg(b []byte, from uint16, broadcast bool) {
	if len(b) < 2 || b[0] != 1 {
		return
	}
	s.w.Mu.Lock()
	if s.sigs == nil {
		s.sigs = map[uint16][]byte{}
	}
	if _, ok := s.sigs[from]; !ok {
		s.sigs[from] = append([]byte(nil), b[1:]...)
	}
	s.w.Mu.Unlock()
	s.w.Wake()
}

func (s *ISigner) SetShareData(d []byte) error {
	t := &bls.TBLS{Logger: s.Logger, Party: s.Party}
	if err := t.SetShareData(d); err != nil {
		return err
	}
	s.share = append([]byte(nil), d...)
	return nil
}

func (s *ISigner) tbls() (*bls.TBLS, error) {
	t := &bls.TBLS{Logger: s.Logger, Party: s.Party}
	t.Init(s.AllParties, s.T, nil)
	if err := t.SetShareData(s.share); err != nil {
		return nil, err
	}
	return t, nil
}

func (s *ISigner) ThresholdPK() ([]byte, error) {
	t, err := s.tbls()
	if err != nil {
		return nil, err
	}
	return t.ThresholdPK()
}

func (s *ISigner) Sign(ctx context.Context, digest []byte) ([]byte, error) {
	t, err := s.tbls()
	if err != nil {
		return nil, err
	}
	pp, err := t.ThresholdPK()
	if err != nil {
		return nil, err
	}
	var v bls.Verifier
	if err := v.Init(pp); err != nil {
		return nil, err
	}
	partial, err := t.Sign(ctx, digest)
	if err != nil {
		return nil, err
	}
	s.send(append([]byte{1}, partial...), true, 0)
	want := len(s.session) - 1
	if err := s.w.WaitFor(ctx, func() bool {
		cnt := 0
		for _, p := range s.session {
			if p == s.Party {
				continue
			}
			if _, ok := s.sigs[p]; ok {
				cnt++
			}
		}
		return cnt >= want
	}); err != nil {
		return nil, fmt.Errorf("isigner: %w", err)
	}
	s.w.Mu.Lock()
	signers := append([]uint16(nil), s.session...)
	sort.Slice(signers, func(i, j int) bool { return signers[i] < signers[j] })
	sigs := make([][]byte, len(signers))
	for i, p := range signers {
		if p == s.Party {
			sigs[i] = partial
		} else {
			sigs[i] = s.sigs[p]
		}
	}
	s.w.Mu.Unlock()
	return v.AggregateSignatures(sigs, signers)
}
