package backends

import (
	"context"
	"crypto/sha256"
	"fmt"
	"sync"
	"time"

	"verif/core/stack"
)

// Rec is the recorder / scripted / spy backend (KeyGenerator and Signer). Its
// wire payload is
//
//	kind(1 = broadcast, 2 = point-to-point) | round | senderParty(2, BE) | seq | body
//
// ClassifyMsg reads class and round from the first two bytes. KeyGen/Sign run
// a script of phases; in every phase the party emits its messages and then
// waits until it has been handed the messages of that phase from every other
// party (or the context ends). Every Init/OnMsg/emit is written to the Tape.
type Rec struct {
	Node  uint16 // node id the factory was asked by (harness knowledge)
	Party uint16 // argument the factory received
	Tape  *Tape
	// Script: one entry per phase.
	Script []Phase
	// Hold, if set, is waited for (or ctx) after the script, so nobody leaves before quiescence.
	Hold <-chan struct{}
	// Session label (to tell sessions apart on the tape).
	Session string
	// Gate, when set, makes the first SetShareData call park (tape event "setshare-parked") until it is closed.
	Gate  <-chan struct{}
	gated bool
	// ReturnDelay: how long KeyGen / Sign take to come back once their context has ended (a backend that is in the middle of
	// a long computation when it is cancelled)
	ReturnDelay time.Duration
	// OnMsgGate, when set, makes the first OnMsg call park (tape event "onmsg-parked") until it is closed: a slow handler.
	OnMsgGate  <-chan struct{}
	onMsgGated bool
	// Nonce is put into every payload this instance emits: two instances of "the same" session then emit different bytes,
	// as protocols with fresh randomness do.
	Nonce string
	// Hook, when set, is called synchronously at the named points of the instance's life: "init", "setshare", "run".
	Hook func(point string)
	// SelfParty, when set, is the party identifier this instance stands for
	// (harness knowledge from the membership map); otherwise the factory
	// argument is used. Payloads carry it as sender.
	SelfParty *uint16

	w        stack.CtxWaiter
	parties  []uint16
	send     func(msg []byte, isBroadcast bool, to uint16)
	got      map[string]int // "phase/from/kind" -> count
	share    []byte
	returned bool
}

type Phase struct {
	Round  uint8
	Bcasts int  // broadcasts emitted in this phase (all with this round; normally 1)
	P2P    bool // one point-to-point message to every other party
}

type Event struct {
	Kind        string // init | onmsg | emit | factory | return
	Node        uint16
	Party       uint16
	Session     string
	From        uint16
	To          uint16
	Bcast       bool
	Payload     []byte
	Parties     []uint16
	AfterReturn bool
	Seq         int
}

type Tape struct {
	mu     sync.Mutex
	Events []Event
}

func (t *Tape) add(e Event) {
	t.mu.Lock()
	e.Seq = len(t.Events)
	t.Events = append(t.Events, e)
	t.mu.Unlock()
}

func (t *Tape) Snapshot() []Event {
	t.mu.Lock()
	defer t.mu.Unlock()
	return append([]Event(nil), t.Events...)
}

func RecPayload(bcast bool, round uint8, sender uint16, seq uint8, body string) []byte {
	k := byte(2)
	if bcast {
		k = 1
	}
	return append([]byte{k, round, byte(sender >> 8), byte(sender), seq}, []byte(body)...)
}

func (r *Rec) ClassifyMsg(b []byte) (uint8, bool, error) {
	if len(b) < 2 {
		return 0, false, fmt.Errorf("rec: short message")
	}
	if b[1] > 127 {
		return 0, false, fmt.Errorf("rec: round out of range")
	}
	switch b[0] {
	case 1:
		return b[1], true, nil
	case 2:
		return b[1], false, nil
	}
	return 0, false, fmt.Errorf("rec: unknown class %d", b[0])
}

func (r *Rec) Init(parties []uint16, threshold int, sendMsg func(msg []byte, isBroadcast bool, to uint16)) {
	if r.Hook != nil {
		r.Hook("init")
	}
	r.w.Mu.Lock()
	r.parties = append([]uint16(nil), parties...)
	r.send = sendMsg
	r.got = map[string]int{}
	r.w.Mu.Unlock()
	r.Tape.add(Event{Kind: "init", Node: r.Node, Party: r.Party, Session: r.Session, Parties: append([]uint16(nil), parties...)})
}

func (r *Rec) OnMsg(b []byte, from uint16, broadcast bool) {
	r.w.Mu.Lock()
	park := r.OnMsgGate != nil && !r.onMsgGated
	if park {
		r.onMsgGated = true
	}
	r.w.Mu.Unlock()
	if park {
		r.Tape.add(Event{Kind: "onmsg-parked", Node: r.Node, Party: r.Party, Session: r.Session})
		<-r.OnMsgGate
	}
	r.w.Mu.Lock()
	after := r.returned
	if r.got == nil {
		r.got = map[string]int{}
	}
	if len(b) >= 2 {
		r.got[fmt.Sprintf("%d/%d/%d", b[1], from, b[0])]++
	}
	r.w.Mu.Unlock()
	r.Tape.add(Event{Kind: "onmsg", Node: r.Node, Party: r.Party, Session: r.Session, From: from, Bcast: broadcast, Payload: append([]byte(nil), b...), AfterReturn: after})
	r.w.Wake()
}

func (r *Rec) SetShareData(d []byte) error {
	if r.Hook != nil {
		r.Hook("setshare")
	}
	if r.Gate != nil && !r.gated {
		r.gated = true
		r.Tape.add(Event{Kind: "setshare-parked", Node: r.Node, Party: r.Party, Session: r.Session})
		<-r.Gate
	}
	if len(d) < 4 || string(d[:4]) != "rec:" {
		return fmt.Errorf("rec: unusable share data")
	}
	r.share = append([]byte(nil), d...)
	return nil
}

func (r *Rec) ThresholdPK() ([]byte, error) {
	if r.share == nil {
		return nil, fmt.Errorf("rec: no share data")
	}
	return []byte("rec-pk"), nil
}

func (r *Rec) self() uint16 {
	if r.SelfParty != nil {
		return *r.SelfParty
	}
	return r.Party
}

func (r *Rec) run(ctx context.Context) error {
	if r.Hook != nil {
		r.Hook("run")
	}
	defer func() {
		r.w.Mu.Lock()
		r.returned = true
		r.w.Mu.Unlock()
		r.Tape.add(Event{Kind: "return", Node: r.Node, Party: r.Party, Session: r.Session})
	}()
	seq := uint8(0)
	for _, ph := range r.Script {
		for i := 0; i < ph.Bcasts; i++ {
			p := RecPayload(true, ph.Round, r.self(), seq, fmt.Sprintf("b%d%s;n%d", i, r.Nonce, r.Node))
			seq++
			r.Tape.add(Event{Kind: "emit", Node: r.Node, Party: r.Party, Session: r.Session, Bcast: true, Payload: p})
			r.send(p, true, 0)
		}
		if ph.P2P {
			for _, q := range r.parties {
				if q == r.self() {
					continue
				}
				p := RecPayload(false, ph.Round, r.self(), seq, fmt.Sprintf("to%d%s;n%d", q, r.Nonce, r.Node))
				seq++
				r.Tape.add(Event{Kind: "emit", Node: r.Node, Party: r.Party, Session: r.Session, Bcast: false, To: q, Payload: p})
				r.send(p, false, q)
			}
		}
		ph := ph
		if err := r.w.WaitFor(ctx, func() bool {
			for _, q := range r.parties {
				if q == r.self() {
					continue
				}
				if r.got[fmt.Sprintf("%d/%d/1", ph.Round, q)] < ph.Bcasts {
					return false
				}
				if ph.P2P && r.got[fmt.Sprintf("%d/%d/2", ph.Round, q)] < 1 {
					return false
				}
			}
			return true
		}); err != nil {
			return err
		}
	}
	r.Tape.add(Event{Kind: "script-done", Node: r.Node, Party: r.Party, Session: r.Session})
	if r.Hold != nil {
		select {
		case <-r.Hold:
		case <-ctx.Done():
			return ctx.Err()
		}
	}
	return nil
}

func (r *Rec) KeyGen(ctx context.Context) ([]byte, error) {
	if err := r.run(ctx); err != nil {
		time.Sleep(r.ReturnDelay)
		return nil, fmt.Errorf("rec keygen: %w", err)
	}
	return []byte(fmt.Sprintf("rec:%d", r.Party)), nil
}

func (r *Rec) Sign(ctx context.Context, digest []byte) ([]byte, error) {
	if err := r.run(ctx); err != nil {
		time.Sleep(r.ReturnDelay)
		return nil, fmt.Errorf("rec sign: %w", err)
	}
	h := sha256.Sum256(append([]byte("rec-sig:"), digest...))
	return h[:], nil
}

// DefaultScript: two broadcast rounds with a point-to-point exchange in the first.
func DefaultScript() []Phase {
	return []Phase{{Round: 1, Bcasts: 1, P2P: true}, {Round: 2, Bcasts: 1}}
}

// Mark writes a harness marker (for example the return of an API call) onto
// the tape, so that hand-offs can be ordered against it.
func (t *Tape) Mark(kind, name string) {
	t.add(Event{Kind: kind, Session: name})
}
