package checks

import (
	"bytes"
	"context"
	"encoding/asn1"
	"fmt"
	"os"
	"testing"
	"time"

	"github.com/IBM/TSS/mpc/bls"
	tss "github.com/IBM/TSS/types"
	"pgregory.net/rapid"

	"verif/core/backends"
	"verif/core/sim"
	"verif/core/stack"
	"verif/vh"
)

// C01: threshold key agreement and signing correctness for all n, t, subsets,
// schedules (DESIGN.md §3 C01).

type c01Case struct {
	// LocalSigner: the signing sessions use the library's own bls.TBLS as signer, which signs locally without any
	// further message (each participant obtains its partial signature); otherwise the harness's interactive signer
	LocalSigner bool `json:",omitempty"`
	// NoSwitch disables the generator switch of known finding L39 (only set by its probe case)
	NoSwitch bool  `json:",omitempty"`
	IDs      []int `json:",omitempty"` // identifiers of the parties, ascending (nil = 1..N)
	N, T     int
	Silent   bool
	Sched    sim.Schedule
	Digests  [][]byte
	// orchestrated signing
	Signers    []int // party ids, |Signers| in T..N
	SignDigest []byte
	Topic      string
	// PickPerm: order in which the silent-mode member selection returns the (common) member list.
	PickPerm []int
	// Order in which every signer subset is handed to the aggregator: 0 ascending, 1 descending, 2 rotated.
	Order int
}

func genSchedule(t *rapid.T, maxLen int) sim.Schedule {
	l := rapid.IntRange(0, maxLen).Draw(t, "schedLen")
	return sim.Schedule{
		Choices: rapid.SliceOfN(rapid.IntRange(0, 65535), l, l).Draw(t, "choices"),
		Bias:    rapid.SliceOfN(rapid.IntRange(0, 5), 0, 12).Draw(t, "bias"),
	}
}

func genDigest(t *rapid.T, label string) []byte {
	k := rapid.IntRange(0, 9).Draw(t, label+"Kind")
	switch {
	case k <= 5:
		return rapid.SliceOfN(rapid.Byte(), 32, 32).Draw(t, label)
	case k == 6:
		return rapid.SliceOfN(rapid.Byte(), 0, 8).Draw(t, label)
	default:
		return rapid.SliceOfN(rapid.Byte(), 0, 64).Draw(t, label)
	}
}

// c01IDs: the identifiers of the parties (node identifier = party identifier); 1..N when the case does not name them.
func c01IDs(c c01Case) []uint16 {
	if len(c.IDs) == c.N {
		return u16s(c.IDs)
	}
	return u16s(seq(1, c.N))
}

func selfMembership(ids []uint16) map[uint16]uint16 {
	m := map[uint16]uint16{}
	for _, id := range ids {
		m[id] = id
	}
	return m
}

func genC01(maxN int) func(t *rapid.T) c01Case {
	return func(t *rapid.T) c01Case {
		var c c01Case
		c.N = rapid.IntRange(2, maxN).Draw(t, "n")
		c.LocalSigner = rapid.IntRange(0, 2).Draw(t, "localSigner") == 0
		if rapid.Bool().Draw(t, "otherIDs") {
			// node and party identifiers coincide but are not 1..n (small values; large ones are C13's subject)
			seen := map[int]bool{}
			for len(c.IDs) < c.N {
				id := rapid.IntRange(1, 60).Draw(t, "id")
				if !seen[id] {
					seen[id] = true
					c.IDs = append(c.IDs, id)
				}
			}
			c.IDs = sortedInts(c.IDs)
		}
		c.T = rapid.IntRange(2, c.N).Draw(t, "t")
		c.Silent = rapid.Bool().Draw(t, "silent")
		c.Sched = genSchedule(t, 600)
		nd := rapid.IntRange(1, 2).Draw(t, "nd")
		for i := 0; i < nd; i++ {
			c.Digests = append(c.Digests, genDigest(t, fmt.Sprintf("digest%d", i)))
		}
		k := rapid.IntRange(c.T, c.N).Draw(t, "k")
		perm := rapid.Permutation(seq(1, c.N)).Draw(t, "signerPerm")
		c.Signers = sortedInts(perm[:k])
		c.SignDigest = genDigest(t, "signDigest")
		c.Topic = rapid.StringMatching(`[a-z]{1,6}`).Draw(t, "topic")
		c.PickPerm = rapid.Permutation(seq(0, c.N-1)).Draw(t, "pickPerm")
		c.Order = rapid.IntRange(0, 2).Draw(t, "order")
		return c
	}
}

func seq(a, b int) []int {
	var r []int
	for i := a; i <= b; i++ {
		r = append(r, i)
	}
	return r
}

func sortedInts(in []int) []int {
	out := append([]int(nil), in...)
	for i := range out {
		for j := i + 1; j < len(out); j++ {
			if out[j] < out[i] {
				out[i], out[j] = out[j], out[i]
			}
		}
	}
	return out
}

func u16s(in []int) []uint16 {
	out := make([]uint16, len(in))
	for i, v := range in {
		out[i] = uint16(v)
	}
	return out
}

var theT *testing.T

const (
	callTimeout = 10 * time.Minute // virtual
)

// identityMembership returns {1..n -> 1..n}.
func identityMembership(n int) map[uint16]uint16 {
	m := map[uint16]uint16{}
	for i := 1; i <= n; i++ {
		m[uint16(i)] = uint16(i)
	}
	return m
}

type c01Info struct {
	Steps, Ticks, Overtakes, Frames int
	SignSteps                       int
	Leaked                          bool
	Errors                          []string `json:",omitempty"`
}

// known finding L39: in loud mode a participant whose signer needs no further message (the library's own bls.TBLS) leaves
// the second barrier, signs and removes the barrier's handler at once; the query of a slower participant is then dropped and
// never repeated, so that participant's Sign waits until its context ends.
const sigL39 = "C01/sign-completion/loud-mode-local-signer"

func runC01(c c01Case) *vh.Outcome {
	o := &vh.Outcome{}
	if c.LocalSigner && !c.Silent && !c.NoSwitch && vh.KnownOpen(sigL39) && os.Getenv("VERIF_NO_SWITCH") == "" {
		c.LocalSigner = false // generator switch: the interactive signer, with which every participant passes the barrier before anyone finishes
		o.Classes = append(o.Classes, "excluded-by-known-finding-L39(interactive-signer-instead)")
	}
	all := c01IDs(c)
	info := &c01Info{}
	o.Info = info
	var shares [][]byte
	var sigs [][]byte
	var fail *vh.Failure

	var signers []uint16 // c.Signers are positions 1..N
	for _, p := range c.Signers {
		signers = append(signers, all[p-1])
	}
	k := len(signers)

	br := sim.Bubble(theT, func() {
		net := sim.NewNet()
		ctx, cancel := context.WithTimeout(context.Background(), callTimeout)
		defer cancel()
		cl := stack.New(net, stack.Config{
			Membership: selfMembership(all),
			Silent:     c.Silent,
			Threshold:  k - 1,
			KGF: func(node uint16) tss.KeyGenFactory {
				return func(id uint16) tss.KeyGenerator { return &bls.TBLS{Logger: &sim.Logger{}, Party: id} }
			},
			SF: func(node uint16) tss.SignerFactory {
				return func(id uint16) tss.Signer {
					if c.LocalSigner {
						return &bls.TBLS{Logger: &sim.Logger{}, Party: id}
					}
					return &backends.ISigner{Party: id, AllParties: all, T: c.T, Logger: &sim.Logger{}}
				}
			},
			Pick: func(node uint16) func([]byte, int) []uint16 {
				return func(topic []byte, expected int) []uint16 {
					src := signers
					if expected == c.N {
						src = all
					}
					// the same list on every node, in the generated (not necessarily ascending) order
					out := make([]uint16, 0, len(src))
					for _, i := range c.PickPerm {
						if i < len(src) {
							out = append(out, src[i])
						}
					}
					for i := len(c.PickPerm); i < len(src); i++ {
						out = append(out, src[i])
					}
					return out
				}
			},
		})
		defer cl.StopAll()

		d := &sim.Driver{Net: net, Sched: &c.Sched, DrainAfterDone: true, HardStop: callTimeout + time.Minute}
		for _, id := range all {
			d.Calls = append(d.Calls, cl.KeyGenCall(ctx, id, c.N, c.T))
		}
		d.Run()
		info.Steps, info.Ticks, info.Overtakes, info.Frames = d.Steps, d.Ticks, d.Overtakes, net.Sent()
		if f := driverFailure("C01", d); f != nil {
			fail = f
			return
		}
		for i, call := range d.Calls {
			if !call.IsDone() {
				fail = vh.Failf("C01/keygen-completion", "KeyGen of party %d did not return by the virtual deadline (n=%d t=%d silent=%v)", all[i], c.N, c.T, c.Silent)
				return
			}
			if call.Panic != "" {
				fail = vh.Failf("C01/keygen-panic", "KeyGen of party %d panicked: %s", all[i], call.Panic)
				return
			}
			if call.Err != nil {
				fail = vh.Failf("C01/keygen-completion", "KeyGen of party %d failed in a fault-free run: %v (n=%d t=%d silent=%v)", all[i], call.Err, c.N, c.T, c.Silent)
				return
			}
			shares = append(shares, call.Data)
		}

		// orchestrated signing among the drawn signer set
		for i, id := range all {
			cl.Nodes[id].Party.SetStoredData(shares[i])
		}
		steps0 := d.Steps
		d.Calls = nil
		for _, id := range signers {
			d.Calls = append(d.Calls, cl.SignCall(ctx, id, c.SignDigest, c.Topic))
		}
		d.Run()
		info.SignSteps = d.Steps - steps0
		info.Overtakes = d.Overtakes
		if f := driverFailure("C01", d); f != nil {
			fail = f
			return
		}
		for i, call := range d.Calls {
			if !call.IsDone() {
				fail = vh.Failf("C01/sign-completion", "Sign of party %d did not return by the virtual deadline (signers=%v)", signers[i], signers)
				return
			}
			if call.Panic != "" {
				fail = vh.Failf("C01/sign-panic", "Sign of party %d panicked: %s", signers[i], call.Panic)
				return
			}
			if call.Err != nil {
				sig := "C01/sign-completion"
				if c.LocalSigner && !c.Silent {
					sig = sigL39
				}
				fail = vh.Failf(sig, "Sign of party %d failed in a fault-free run: %v (signers=%v silent=%v local signer=%v)", signers[i], call.Err, signers, c.Silent, c.LocalSigner)
				return
			}
			sigs = append(sigs, call.Data)
		}
		cancel()
		cl.StopAll()
		time.Sleep(5 * time.Second)
	})
	info.Leaked = br.Leaked
	if br.Panic != "" {
		o.Fail = vh.Failf("C01/harness-panic", "%s", br.Panic)
		return o
	}
	o.Classes = append(o.Classes, fmt.Sprintf("n=%d", c.N), fmt.Sprintf("silent=%v", c.Silent), fmt.Sprintf("subset-order=%d", c.Order))
	if len(c.IDs) == c.N {
		o.Classes = append(o.Classes, "identifiers-not-1..n")
	}
	asc := true
	for i := 1; i < len(c.PickPerm); i++ {
		if c.PickPerm[i] < c.PickPerm[i-1] {
			asc = false
		}
	}
	if c.Silent && !asc {
		o.Classes = append(o.Classes, "silent-pick-not-ascending")
	}
	if info.Overtakes > 0 {
		o.Classes = append(o.Classes, "overtaking")
	}
	if br.Leaked {
		o.Classes = append(o.Classes, "leaked-goroutines")
	}
	if fail != nil {
		o.Fail = fail
		return o
	}
	o.NonTrivial = info.Overtakes > 0
	o.Key = fmt.Sprintf("%d/%d/%v/%v/%v/%x", c.N, c.T, c.Silent, c.Sched, c.Signers, c.SignDigest)

	// (2) identical public material
	var pps [][]byte
	for i, id := range all {
		tb := &bls.TBLS{Logger: &sim.Logger{}, Party: id}
		tb.Init(all, c.T, nil)
		if err := tb.SetShareData(shares[i]); err != nil {
			o.Fail = vh.Failf("C01/stored-data", "party %d cannot load its own KeyGen output: %v", id, err)
			return o
		}
		pp, err := tb.ThresholdPK()
		if err != nil {
			o.Fail = vh.Failf("C01/stored-data", "party %d ThresholdPK: %v", id, err)
			return o
		}
		pps = append(pps, pp)
		if !bytes.Equal(pp, pps[0]) {
			o.Fail = vh.Failf("C01/public-material-differs", "party %d and party %d report different public material after a completed DKG (n=%d t=%d)", all[0], id, c.N, c.T)
			return o
		}
	}
	var v bls.Verifier
	if err := v.Init(pps[0]); err != nil {
		o.Fail = vh.Failf("C01/public-material-unusable", "Verifier.Init on DKG output: %v", err)
		return o
	}
	var params bls.PublicParams
	if _, err := asn1.Unmarshal(pps[0], &params); err != nil {
		o.Fail = vh.Failf("C01/public-material-unusable", "public parameters do not parse: %v", err)
		return o
	}

	// (3) every subset of size >= t signs validly from the stored shares
	digests := append([][]byte{}, c.Digests...)
	for _, dg := range digests {
		partials := make([][]byte, c.N)
		for i, id := range all {
			tb := &bls.TBLS{Logger: &sim.Logger{}, Party: id}
			tb.Init(all, c.T, nil)
			_ = tb.SetShareData(shares[i])
			p, err := tb.Sign(nil, dg)
			if err != nil {
				o.Fail = vh.Failf("C01/partial-sign", "party %d cannot sign: %v", id, err)
				return o
			}
			partials[i] = p
			// partial verifies under that party's published key
			ppi, _ := asn1.Marshal(bls.PublicParams{Parties: params.Parties, PublicKeys: params.PublicKeys, ThresholdPK: params.PublicKeys[i]})
			var vi bls.Verifier
			if err := vi.Init(ppi); err != nil {
				o.Fail = vh.Failf("C01/party-key", "published key of party %d unusable: %v", id, err)
				return o
			}
			if err := vi.Verify(dg, p); err != nil {
				o.Fail = vh.Failf("C01/party-key", "partial signature of party %d does not verify under its published key (n=%d t=%d)", id, c.N, c.T)
				return o
			}
		}
		nsub := 0
		forSubsets(c.N, c.T, func(sub []int) bool {
			nsub++
			var ss [][]byte
			var ids []uint16
			ord := append([]int(nil), sub...)
			switch c.Order {
			case 1:
				for i, j := 0, len(ord)-1; i < j; i, j = i+1, j-1 {
					ord[i], ord[j] = ord[j], ord[i]
				}
			case 2:
				ord = append(ord[1:], ord[0])
			}
			for _, p := range ord {
				ss = append(ss, partials[p-1])
				ids = append(ids, all[p-1])
			}
			agg, err := v.AggregateSignatures(ss, ids)
			if err != nil {
				o.Fail = vh.Failf("C01/aggregate", "aggregation for subset %v failed: %v", sub, err)
				return false
			}
			if err := v.Verify(dg, agg); err != nil {
				o.Fail = vh.Failf("C01/subset-verify", "signature of subset %v on digest %x does not verify under the threshold key (n=%d t=%d)", sub, dg, c.N, c.T)
				return false
			}
			return true
		})
		if o.Fail != nil {
			return o
		}
		o.Classes = append(o.Classes, "subsets-checked")
	}

	// (4) orchestrated signatures verify and agree
	if c.LocalSigner {
		// every participant obtained its own partial signature: it verifies under that party's published key
		for i, s := range sigs {
			pos := c.Signers[i] - 1
			ppi, _ := asn1.Marshal(bls.PublicParams{Parties: params.Parties, PublicKeys: params.PublicKeys, ThresholdPK: params.PublicKeys[pos]})
			var vi bls.Verifier
			if err := vi.Init(ppi); err != nil || vi.Verify(c.SignDigest, s) != nil {
				o.Fail = vh.Failf("C01/orchestrated-verify", "the partial signature that Sign returned on party %d does not verify for the requested digest under that party's published key", signers[i])
				return o
			}
		}
		o.Classes = append(o.Classes, "local-signer")
		return o
	}
	for i, s := range sigs {
		if err := v.Verify(c.SignDigest, s); err != nil {
			o.Fail = vh.Failf("C01/orchestrated-verify", "signature returned by Sign on party %d does not verify for the requested digest %x (signers=%v n=%d t=%d)", signers[i], c.SignDigest, signers, c.N, c.T)
			return o
		}
		if !bytes.Equal(s, sigs[0]) {
			o.Fail = vh.Failf("C01/orchestrated-differs", "signers %d and %d obtained different signatures", signers[0], signers[i])
			return o
		}
	}
	if len(c.SignDigest) != 32 {
		o.Classes = append(o.Classes, "digest-len!=32")
	}
	return o
}

// forSubsets enumerates all subsets of {1..n} of size >= t.
func forSubsets(n, t int, f func([]int) bool) {
	for mask := 1; mask < 1<<n; mask++ {
		var sub []int
		for i := 0; i < n; i++ {
			if mask&(1<<i) != 0 {
				sub = append(sub, i+1)
			}
		}
		if len(sub) < t {
			continue
		}
		if !f(sub) {
			return
		}
	}
}

// driverFailure maps dispatcher-level observations to failures.
func driverFailure(prop string, d *sim.Driver) *vh.Failure {
	if d.HandlerPanic != "" {
		return vh.Failf(prop+"/handler-panic", "%s", d.HandlerPanic)
	}
	if d.HandlerBlocked != "" {
		return vh.Failf(prop+"/handler-blocked", "%s", d.HandlerBlocked)
	}
	return nil
}

func TestC01(t *testing.T) {
	theT = t
	maxN := 5
	if vh.Thorough() {
		maxN = 6
	}
	vh.Prop[c01Case]{ID: "C01", Test: "TestC01", Gen: genC01(maxN), Run: runC01,
		Sample: func(c c01Case, o *vh.Outcome) interface{} {
			return map[string]interface{}{"n": c.N, "t": c.T, "silent": c.Silent, "signers": c.Signers, "digest_len": len(c.SignDigest),
				"schedule_len": len(c.Sched.Choices), "bias": c.Sched.Bias, "info": o.Info}
		}}.Main(t)
}
