package checks

import (
	"context"
	"crypto/sha256"
	"fmt"
	"testing"
	"time"

	"github.com/IBM/TSS/threshold"
	tss "github.com/IBM/TSS/types"
	"pgregory.net/rapid"

	"verif/core/kit"
	"verif/core/sim"
	"verif/core/stack"
	"verif/vh"
)

// C05 at the level of the whole stack (DESIGN.md §3 C05, Level S): "different
// values shown to different parties". The misbehaving participant runs TWO honest
// instances of the real DKG behind its one identifier; what instance A says goes to
// one part of the honest parties, what instance B says to the other part (the
// victims). Every message each honest party sees is perfectly well-formed and
// consistent with the others it sees from that participant - only the reliable
// broadcast between the honest parties can notice. Real LoudScheme / SilentScheme,
// real synchroniser, real broadcast layer, real BLS / PS DKG.

type c05sCase struct {
	Backend string // bls | ps
	N, T    int
	Silent  bool
	Byz     int
	Victims []int // honest parties that are shown instance B
	// Mode: 0 everything of B for the victims; 1 only B's broadcast-class messages (commitment, revealed key) for the
	// victims, the point-to-point shares of A for everybody; 2 only B's revealed key for the victims;
	// 3 "accomplice": the participant withholds its commitment; a configured member that does NOT take part in this key
	// generation (node n+1) transmits that commitment under its own identifier instead, to every party. Everything else of
	// the participant is delivered. No honest party may disclose its key contribution: it never holds the participant's
	// commitment.
	Mode int
	// SelfAck: the participant also vouches itself for whatever it showed to a party (an acknowledgement naming itself as
	// the sender, with the digest of the payload that party was shown)
	SelfAck bool
	Sched   sim.Schedule
}

type c05sInfo struct {
	Results   map[int]string
	Successes int
	Diverted  int // frames of instance B delivered to victims
	Resourced int // mode 3: commitment frames of the participant transmitted by the non-participant instead
	Disclosed []int
}

type muxHandler struct{ a, b sim.Handler }

func (m muxHandler) HandleMessage(in *tss.IncMessage) {
	cp := &tss.IncMessage{Source: in.Source, MsgType: in.MsgType, Topic: append([]byte(nil), in.Topic...), Data: append([]byte(nil), in.Data...)}
	m.a.HandleMessage(in)
	m.b.HandleMessage(cp)
}

const c05sTimeout = 30 * time.Second

// message classes of the built-in BLS and PS key generations (the classifier's "round"): 1 share (p2p), 2 commitment, 3 revealed key
const (
	c05sCommit = 2
	c05sReveal = 3
)

func runC05S(c c05sCase) *vh.Outcome {
	o := &vh.Outcome{}
	info := &c05sInfo{Results: map[int]string{}}
	o.Info = info
	all := u16s(seq(1, c.N))
	kind := kit.Kind{Name: c.Backend, L: 1}
	byz := uint16(c.Byz)
	victim := map[uint16]bool{}
	for _, v := range c.Victims {
		victim[uint16(v)] = true
	}
	var fail *vh.Failure
	shares := map[int][]byte{}

	br := sim.Bubble(theT, func() {
		net := sim.NewNet()
		pick := func(uint16) func([]byte, int) []uint16 {
			return func([]byte, int) []uint16 { return append([]uint16(nil), all...) }
		}
		members := c.N
		accomplice := uint16(c.N + 1)
		if c.Mode == 3 {
			members = c.N + 1
		}
		cl := stack.New(net, stack.Config{Membership: identityMembership(members), Silent: c.Silent, Threshold: c.T - 1,
			KGF: func(node uint16) tss.KeyGenFactory {
				return func(id uint16) tss.KeyGenerator { return kind.NewKeyGen(id) }
			},
			Pick: pick})
		defer cl.StopAll()
		// instance B of the misbehaving participant: a second, equally honest node under the same identifier
		membership := func() map[tss.UniversalID]tss.PartyID {
			m := map[tss.UniversalID]tss.PartyID{}
			for id := 1; id <= members; id++ {
				m[tss.UniversalID(id)] = tss.PartyID(id)
			}
			return m
		}
		sendB := func(msgType uint8, topic []byte, msg []byte, to ...uint16) {
			for _, dst := range to {
				net.Enqueue(&sim.Frame{From: byz, To: dst, MsgType: msgType, Topic: append([]byte(nil), topic...), Data: append([]byte(nil), msg...), Note: "B"})
			}
		}
		kgfB := func(id uint16) tss.KeyGenerator { return kind.NewKeyGen(id) }
		var instB tss.MpcParty
		if c.Silent {
			instB = threshold.SilentScheme(byz, &sim.Logger{}, kgfB, nil, c.T-1, sendB, membership, pick(byz))
		} else {
			instB = threshold.LoudScheme(byz, &sim.Logger{}, kgfB, nil, c.T-1, sendB, membership)
		}
		defer func() {
			if s, ok := instB.(interface{ Stop() }); ok {
				func() { defer func() { _ = recover() }(); s.Stop() }()
			}
		}()
		net.Attach(byz, muxHandler{a: cl.Nodes[byz].Party, b: instB})
		classifier := kind.NewKeyGen(byz)
		// which frames of B replace those of A towards the victims
		replaced := func(f *sim.Frame) bool {
			if f.MsgType != uint8(tss.MsgTypeMPC) || len(f.Data) < 2 || f.Data[0] != 0xFF {
				return false // synchroniser traffic and acknowledgements: instance A speaks for the participant
			}
			round, bcast, err := classifier.ClassifyMsg(f.Data[1:])
			if err != nil {
				return false
			}
			switch c.Mode {
			case 0:
				return true
			case 1:
				return bcast
			case 3:
				return false
			default:
				return bcast && round >= c05sReveal // the revealed key is the last broadcast of the DKG
			}
		}
		disclosed := map[uint16]bool{}
		net.Interpose = func(f *sim.Frame) []*sim.Frame {
			if c.Mode == 3 && f.From != byz && f.From != accomplice && f.MsgType == uint8(tss.MsgTypeMPC) && len(f.Data) >= 2 && f.Data[0] == 0xFF {
				if round, bcast, err := classifier.ClassifyMsg(f.Data[1:]); err == nil && bcast && round >= c05sReveal && !disclosed[f.From] {
					disclosed[f.From] = true
					info.Disclosed = append(info.Disclosed, int(f.From))
				}
			}
			if f.From != byz {
				return []*sim.Frame{f}
			}
			fromB := f.Note == "B"
			if c.Mode == 3 && !fromB && f.MsgType == uint8(tss.MsgTypeMPC) && len(f.Data) >= 2 && f.Data[0] == 0xFF {
				if round, bcast, err := classifier.ClassifyMsg(f.Data[1:]); err == nil && bcast && round == c05sCommit {
					g := *f
					g.From = accomplice
					info.Resourced++
					return []*sim.Frame{&g}
				}
			}
			if !replaced(f) {
				if fromB {
					return nil
				}
				return []*sim.Frame{f}
			}
			if victim[f.To] == fromB {
				if fromB {
					info.Diverted++
				}
				out := []*sim.Frame{f}
				if round, bcast, err := classifier.ClassifyMsg(f.Data[1:]); c.SelfAck && err == nil && bcast {
					dg := sha256.Sum256(f.Data[1:])
					ack := append([]byte{round, byte(byz >> 8), byte(byz)}, dg[:]...)
					out = append(out, &sim.Frame{From: byz, To: f.To, MsgType: f.MsgType, Topic: append([]byte(nil), f.Topic...), Data: ack, Injected: true})
				}
				return out
			}
			return nil
		}
		ctx, cancel := context.WithTimeout(context.Background(), c05sTimeout)
		defer cancel()
		d := &sim.Driver{Net: net, Sched: &c.Sched, DrainAfterDone: true, HardStop: c05sTimeout + 30*time.Second}
		for _, id := range all {
			d.Calls = append(d.Calls, cl.KeyGenCall(ctx, id, c.N, c.T))
		}
		d.Calls = append(d.Calls, &sim.Call{Name: "keygen@B", Start: func(call *sim.Call) {
			data, err := instB.KeyGen(ctx, c.N, c.T)
			call.Finish(data, err)
		}})
		d.Run()
		if f := driverFailure("C05", d); f != nil {
			fail = f
			return
		}
		if c.Mode == 3 && len(info.Disclosed) > 0 {
			fail = vh.Failf("C05/stack/disclosed-without-commitment", "honest parties %v disclosed their public-key contribution although participant %d never sent them a commitment: its commitment arrived only from node %d, a configured member that does not take part in this key generation (n=%d t=%d backend %s silent=%v)", info.Disclosed, c.Byz, accomplice, c.N, c.T, c.Backend, c.Silent)
			return
		}
		for i, id := range all {
			call := d.Calls[i]
			if id == byz {
				continue
			}
			switch {
			case !call.IsDone():
				fail = vh.Failf("C05/stack/hang", "KeyGen of honest party %d did not return by the deadline (split-brain participant %d, victims %v, mode %d)", id, c.Byz, c.Victims, c.Mode)
				return
			case call.Panic != "":
				fail = vh.Failf("C05/stack/panic", "KeyGen of honest party %d panicked: %s", id, call.Panic)
				return
			case call.Err != nil:
				info.Results[int(id)] = "error: " + call.Err.Error()
			default:
				info.Results[int(id)] = "ok"
				shares[int(id)] = call.Data
				info.Successes++
			}
		}
		cancel()
		cl.StopAll()
		time.Sleep(time.Minute)
	})
	if br.Panic != "" {
		o.Fail = vh.Failf("C05/harness-panic", "%s", br.Panic)
		return o
	}
	o.Key = fmt.Sprintf("%+v", c)
	split := len(c.Victims) > 0 && len(c.Victims) < c.N-1
	o.NonTrivial = split && info.Diverted > 0 || c.Mode == 3 && info.Resourced > 0
	o.Classes = append(o.Classes, "backend="+c.Backend, fmt.Sprintf("silent=%v", c.Silent), fmt.Sprintf("mode=%d", c.Mode))
	if c.T == c.N {
		o.Classes = append(o.Classes, "t=n")
	}
	if c.SelfAck {
		o.Classes = append(o.Classes, "self-vouching")
	}
	if split {
		o.Classes = append(o.Classes, "honest-parties-shown-different-instances")
	}
	if info.Successes > 0 {
		o.Classes = append(o.Classes, "some-honest-completed")
	}
	if fail != nil {
		o.Fail = fail
		return o
	}
	cc := c05Case{Backend: c.Backend, L: 1, N: c.N, T: c.T, Byz: c.Byz, Victims: c.Victims}
	ci := &c05Info{Strategy: fmt.Sprintf("split-brain(mode %d, stack level, silent=%v)", c.Mode, c.Silent)}
	o.Fail = c05Consistency(cc, all, shares, ci)
	return o
}

func genC05S(t *rapid.T) c05sCase {
	var c c05sCase
	c.Backend = rapid.SampledFrom([]string{"bls", "bls", "ps"}).Draw(t, "backend")
	c.N = rapid.IntRange(3, 4).Draw(t, "n")
	c.T = rapid.SampledFrom([]int{c.N, c.N, rapid.IntRange(2, c.N).Draw(t, "tt")}).Draw(t, "t")
	c.Silent = rapid.Bool().Draw(t, "silent")
	c.Byz = rapid.IntRange(1, c.N).Draw(t, "byz")
	var honest []int
	for i := 1; i <= c.N; i++ {
		if i != c.Byz {
			honest = append(honest, i)
		}
	}
	mask := rapid.IntRange(0, (1<<len(honest))-1).Draw(t, "victims")
	for i, h := range honest {
		if mask&(1<<i) != 0 {
			c.Victims = append(c.Victims, h)
		}
	}
	c.Mode = rapid.IntRange(0, 3).Draw(t, "mode")
	if c.Mode == 3 {
		c.Victims = nil
	}
	c.SelfAck = rapid.Bool().Draw(t, "selfAck")
	c.Sched = genSchedule(t, 200)
	return c
}

func TestC05S(t *testing.T) {
	theT = t
	vh.Prop[c05sCase]{ID: "C05", Test: "TestC05S", Gen: genC05S, Run: runC05S}.Main(t)
}
