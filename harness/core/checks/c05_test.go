package checks

import (
	"bytes"
	"context"
	"crypto/sha256"
	"encoding/asn1"
	"fmt"
	"testing"
	"time"

	"github.com/IBM/TSS/mpc/bls"
	"github.com/IBM/TSS/mpc/ps"
	math "github.com/IBM/mathlib"
	"pgregory.net/rapid"

	"verif/core/asnmut"
	"verif/core/fix"
	"verif/core/kit"
	"verif/core/sim"
	"verif/vh"
)

// C05 (Level B, DESIGN.md §3 C05): one participant of a BLS / PS DKG deviates;
// the backends are driven directly with an ideal broadcast. Also serves C10
// target T5 (malformed DKG messages into ClassifyMsg/OnMsg in every phase).

const (
	kShare  = 1
	kCommit = 2
	kReveal = 3
)

var c05Strategies = []string{
	"honest-control",         // 0
	"share-plus-delta",       // 1 off-polynomial share to the victims
	"share-random",           // 2
	"reveal-mismatch",        // 3 reveal another valid key than committed
	"offpoly-key-consistent", // 4 commit and reveal a key that is off the polynomial
	"malformed-share",        // 5
	"malformed-reveal",       // 6 (commitment matches the malformed bytes)
	"malformed-commit",       // 7
	"duplicate-share",        // 8 second, different share
	"duplicate-commit",       // 9
	"duplicate-reveal",       // 10
	"withhold-share",         // 11 (to victims)
	"withhold-commit",        // 12
	"withhold-reveal",        // 13
	"reveal-before-commit",   // 14
	"shares-last",            // 15 shares only after commit and reveal went out
	"copycat",                // 16 replay an honest party's commit and reveal as own
	"structural-share",       // 17 PS/BLS share with altered component structure
	"structural-reveal",      // 18 key with altered component structure, commitment consistent
	"byte-mutated-any",       // 19 byte-level mutation of any one message kind
	"short-share",            // 20 a well-formed share with one component too few (PS: one y fewer; BLS: one byte fewer), instead of the valid one
	"long-share",             // 21 ... one component too many
	"empty-commit-then-late", // 22 an empty commitment first; the real commitment and the key only after every honest party has revealed
}

type c05Case struct {
	Backend  string // bls | ps
	L        int
	N, T     int
	Byz      int
	Strategy int
	Victims  []int // honest party ids that receive the deviating point-to-point message
	Arg      int
	Kind     int // message kind for strategy 19
	Mut      mut
	Op       asnmut.Op
	Sched    sim.Schedule
}

func genC05(maxN int) func(t *rapid.T) c05Case {
	return func(t *rapid.T) c05Case {
		var c c05Case
		c.Backend = rapid.SampledFrom([]string{"bls", "bls", "ps"}).Draw(t, "backend")
		c.L = 1
		if c.Backend == "ps" {
			c.L = rapid.IntRange(1, 2).Draw(t, "L")
		}
		mn := maxN
		if c.Backend == "ps" && mn > 4 {
			mn = 4
		}
		c.N = rapid.IntRange(3, mn).Draw(t, "n")
		c.T = rapid.IntRange(2, c.N).Draw(t, "t")
		c.Byz = rapid.IntRange(1, c.N).Draw(t, "byz")
		c.Strategy = rapid.IntRange(0, len(c05Strategies)-1).Draw(t, "strategy")
		var honest []int
		for i := 1; i <= c.N; i++ {
			if i != c.Byz {
				honest = append(honest, i)
			}
		}
		mask := rapid.IntRange(1, (1<<len(honest))-1).Draw(t, "victims")
		for i, h := range honest {
			if mask&(1<<i) != 0 {
				c.Victims = append(c.Victims, h)
			}
		}
		c.Arg = rapid.IntRange(0, 1000).Draw(t, "arg")
		c.Kind = rapid.IntRange(1, 3).Draw(t, "kind")
		c.Mut = genMut(t, "m")
		c.Op = asnmut.Op{Field: rapid.IntRange(0, 3).Draw(t, "field"), Kind: rapid.IntRange(0, 8).Draw(t, "okind"), Arg: rapid.IntRange(0, 300).Draw(t, "oarg"), Donor: rapid.SliceOfN(rapid.Byte(), 0, 40).Draw(t, "donor")}
		c.Sched = genSchedule(t, 150)
		return c
	}
}

type c05Info struct {
	Strategy   string
	Results    map[int]string
	Delivered  int // deviating messages handed to honest backends
	Withheld   int // messages dropped by the strategy
	Leaked     bool
	Successes  int
	RevealedOK bool
}

var curve = fix.Curve

func zrPlus(b []byte, d int64) []byte {
	return curve.NewZrFromBytes(b).Plus(curve.NewZrFromInt(d)).Bytes()
}

func g2Plus(b []byte) ([]byte, bool) {
	p, err := curve.NewG2FromBytes(b)
	if err != nil {
		return nil, false
	}
	p.Add(curve.GenG2)
	return p.Bytes(), true
}

// deviateKey returns a *valid* key that differs from body (BLS: G2 point, PS: XYs of G2 points).
func deviateKey(backend string, body []byte, arg int) ([]byte, bool) {
	if backend == "bls" {
		return g2Plus(body)
	}
	var xys ps.XYs
	if _, err := asn1.Unmarshal(body, &xys); err != nil {
		return nil, false
	}
	idx := arg % (len(xys.Ys) + 1)
	var ok bool
	if idx == 0 {
		xys.X, ok = g2Plus(xys.X)
	} else {
		xys.Ys[idx-1], ok = g2Plus(xys.Ys[idx-1])
	}
	if !ok {
		return nil, false
	}
	out, err := asn1.Marshal(xys)
	return out, err == nil
}

func deviateShare(backend string, body []byte, arg int, random bool) ([]byte, bool) {
	d := int64(1 + arg%5)
	if random {
		d = int64(1000003 + arg*7919)
	}
	if backend == "bls" {
		return zrPlus(body, d), true
	}
	var xys ps.XYs
	if _, err := asn1.Unmarshal(body, &xys); err != nil {
		return nil, false
	}
	idx := arg % (len(xys.Ys) + 1)
	if idx == 0 {
		xys.X = zrPlus(xys.X, d)
	} else {
		xys.Ys[idx-1] = zrPlus(xys.Ys[idx-1], d)
	}
	out, err := asn1.Marshal(xys)
	return out, err == nil
}

func structural(backend string, body []byte, op asnmut.Op) []byte {
	if backend == "ps" {
		var xys ps.XYs
		out, _, err := asnmut.Reencode(body, &xys, op)
		if err == nil {
			return out
		}
		return body
	}
	// BLS shares and keys are bare byte strings: length-level structure only
	b, _ := asnMutBytes(body, op)
	return b
}

func asnMutBytes(b []byte, op asnmut.Op) ([]byte, string) {
	type wrap struct{ B []byte }
	w := wrap{B: append([]byte(nil), b...)}
	op.Field = 0
	d := asnmut.Apply(&w, op)
	return w.B, d
}

func runC05(c c05Case) *vh.Outcome {
	o := &vh.Outcome{}
	info := &c05Info{Strategy: c05Strategies[c.Strategy%len(c05Strategies)], Results: map[int]string{}}
	o.Info = info
	parties := u16s(seq(1, c.N))
	byz := uint16(c.Byz)
	victim := map[uint16]bool{}
	for _, v := range c.Victims {
		victim[uint16(v)] = true
	}
	strat := c.Strategy % len(c05Strategies)
	var fail *vh.Failure
	shares := map[int][]byte{}
	revealEarly := ""
	revealedOwn := map[uint16]bool{}
	byzCommitsBefore := map[uint16][][]byte{}
	byzFirstReveal := map[uint16][]byte{}

	br := sim.Bubble(theT, func() {
		k := kit.New(kit.Kind{Name: c.Backend, L: c.L}, parties, c.T, nil) // the Byzantine party is an honest puppet whose traffic is rewritten
		ctx, cancel := context.WithTimeout(context.Background(), 30*time.Second)
		defer cancel()

		// ordering clause observation
		commitsHeld := map[uint16]map[uint16]bool{}
		// commitment binding, observed: which commitments of the deviating participant an honest party was handed BEFORE it
		// disclosed its own key, and which revealed key of that participant it was handed first
		k.OnRecv = func(to, from uint16, payload []byte, bc bool) {
			if from == byz && to != byz && len(payload) > 0 {
				if payload[0] == kCommit && !revealedOwn[to] {
					byzCommitsBefore[to] = append(byzCommitsBefore[to], append([]byte(nil), payload[1:]...))
				}
				if payload[0] == kReveal && byzFirstReveal[to] == nil {
					byzFirstReveal[to] = append([]byte{}, payload[1:]...)
				}
			}
			if len(payload) > 0 && payload[0] == kCommit {
				if commitsHeld[to] == nil {
					commitsHeld[to] = map[uint16]bool{}
				}
				commitsHeld[to][from] = true
			}
			if from == byz && to != byz {
				info.Delivered++
			}
		}
		k.OnEmit = func(from uint16, payload []byte, bc bool, to uint16) {
			if from != byz && len(payload) > 0 && payload[0] == kReveal {
				revealedOwn[from] = true
				if len(commitsHeld[from]) < c.N-1 && revealEarly == "" {
					revealEarly = fmt.Sprintf("party %d disclosed its public-key contribution while holding commitments of only %d of %d other participants", from, len(commitsHeld[from]), c.N-1)
				}
			}
		}

		// the adversary: rewrites what the puppet emits. Broadcasts are rewritten
		// identically for every destination (ideal broadcast).
		cache := map[string][]byte{}
		var held []*sim.Frame // frames held back for reordering strategies
		sentKinds := map[byte]bool{}
		var honestCommit, honestReveal []byte // copy-cat material (from the lowest honest party)
		release := func() []*sim.Frame { r := held; held = nil; return r }
		// strategy 22: the real commitment and the key are kept back until every honest party has disclosed its key
		honestRevealed := map[uint16]bool{}
		var lateCommits, lateReveals []*sim.Frame
		lateReady := false
		k.Net.Interpose = func(f *sim.Frame) []*sim.Frame {
			if len(f.Data) < 2 {
				return []*sim.Frame{f}
			}
			kind := f.Data[1]
			body := f.Data[2:]
			if f.From != byz {
				if f.To == byz {
					if kind == kCommit && honestCommit == nil {
						honestCommit = append([]byte(nil), body...)
					}
					if kind == kReveal && honestReveal == nil {
						honestReveal = append([]byte(nil), body...)
					}
					if kind == kReveal && strat == 22 {
						honestRevealed[f.From] = true
						if len(honestRevealed) == c.N-1 && lateReady {
							lateReady = false
							return append([]*sim.Frame{f}, append(lateCommits, lateReveals...)...)
						}
					}
				}
				return []*sim.Frame{f}
			}
			mk := func(kind byte, body []byte) *sim.Frame {
				g := *f
				g.Data = append([]byte{f.Data[0], kind}, body...)
				return &g
			}
			once := func(key string, fn func() []byte) []byte {
				if v, ok := cache[key]; ok {
					return v
				}
				v := fn()
				cache[key] = v
				return v
			}
			drop := func() []*sim.Frame { info.Withheld++; return nil }
			sentKinds[kind] = true
			switch strat {
			case 1, 2:
				if kind == kShare && victim[f.To] {
					if nb, ok := deviateShare(c.Backend, body, c.Arg, strat == 2); ok {
						return []*sim.Frame{mk(kind, nb)}
					}
				}
			case 3:
				if kind == kReveal {
					nb := once("reveal", func() []byte { b, _ := deviateKey(c.Backend, body, c.Arg); return b })
					if nb != nil {
						return []*sim.Frame{mk(kind, nb)}
					}
				}
			case 4:
				// needs the key at commit time: the commitment is replaced when it passes, using the
				// key that will be revealed = own key + G; the puppet's own key is only visible in its
				// reveal, so the commit is held until the reveal is emitted... the puppet reveals only
				// after all commitments, which do not depend on ours: hold ours, rewrite both at reveal time.
				if kind == kCommit {
					held = append(held, f)
					return nil
				}
				if kind == kReveal {
					nb := once("reveal", func() []byte { b, _ := deviateKey(c.Backend, body, c.Arg); return b })
					if nb == nil {
						return append(release(), f)
					}
					var out []*sim.Frame
					for _, h := range release() {
						if h.To == f.To || true {
							d := sha256.Sum256(nb)
							g := *h
							g.Data = append([]byte{h.Data[0], kCommit}, d[:]...)
							out = append(out, &g)
						}
					}
					return append(out, mk(kind, nb))
				}
			case 5:
				if kind == kShare && victim[f.To] {
					return []*sim.Frame{mk(kind, c.Mut.apply(body, nil))}
				}
			case 6:
				if kind == kCommit {
					held = append(held, f)
					return nil
				}
				if kind == kReveal {
					nb := once("reveal", func() []byte { return c.Mut.apply(body, nil) })
					var out []*sim.Frame
					for _, h := range release() {
						d := sha256.Sum256(nb)
						g := *h
						g.Data = append([]byte{h.Data[0], kCommit}, d[:]...)
						out = append(out, &g)
					}
					return append(out, mk(kind, nb))
				}
			case 7:
				if kind == kCommit {
					return []*sim.Frame{mk(kind, once("commit", func() []byte { return c.Mut.apply(body, nil) }))}
				}
			case 8:
				if kind == kShare && victim[f.To] {
					if nb, ok := deviateShare(c.Backend, body, c.Arg, false); ok {
						if c.Arg%2 == 0 {
							return []*sim.Frame{f, mk(kind, nb)}
						}
						return []*sim.Frame{mk(kind, nb), f}
					}
				}
			case 9:
				if kind == kCommit {
					other := once("commit2", func() []byte { d := sha256.Sum256(append([]byte("x"), body...)); return d[:] })
					if c.Arg%2 == 0 {
						return []*sim.Frame{f, mk(kind, other)}
					}
					return []*sim.Frame{mk(kind, other), f}
				}
			case 10:
				if kind == kReveal {
					nb := once("reveal2", func() []byte { b, _ := deviateKey(c.Backend, body, c.Arg); return b })
					if nb != nil {
						if c.Arg%2 == 0 {
							return []*sim.Frame{f, mk(kind, nb)}
						}
						return []*sim.Frame{mk(kind, nb), f}
					}
				}
			case 11:
				if kind == kShare && victim[f.To] {
					return drop()
				}
			case 12:
				if kind == kCommit {
					return drop()
				}
			case 13:
				if kind == kReveal {
					return drop()
				}
			case 14:
				if kind == kCommit {
					held = append(held, f)
					return nil
				}
				if kind == kReveal {
					// reveal goes out first, the commitments follow
					return append([]*sim.Frame{f}, releaseFor(&held, f.To)...)
				}
			case 15:
				if kind == kShare {
					held = append(held, f)
					return nil
				}
			case 16:
				if kind == kCommit && honestCommit != nil {
					return []*sim.Frame{mk(kind, honestCommit)}
				}
				if kind == kReveal && honestReveal != nil {
					return []*sim.Frame{mk(kind, honestReveal)}
				}
			case 17:
				if kind == kShare && victim[f.To] {
					return []*sim.Frame{mk(kind, structural(c.Backend, body, c.Op))}
				}
			case 22:
				if kind == kCommit {
					lateCommits = append(lateCommits, f)
					return []*sim.Frame{mk(kind, nil)} // an empty commitment goes out in its place
				}
				if kind == kReveal {
					lateReveals = append(lateReveals, f)
					if len(lateReveals) < c.N-1 {
						return nil
					}
					if len(honestRevealed) == c.N-1 {
						return append(lateCommits, lateReveals...)
					}
					lateReady = true
					return nil
				}
			case 20, 21:
				if kind == kShare && victim[f.To] {
					op := asnmut.Op{Field: 1, Kind: 0} // PS: XYs.Ys, drop the last element
					if strat == 21 {
						op.Kind = 3 // duplicate the last element
					}
					nb := structural(c.Backend, body, op)
					if c.Backend != "ps" {
						if strat == 20 && len(body) > 0 {
							nb = append([]byte(nil), body[:len(body)-1]...)
						} else {
							nb = append(append([]byte(nil), body...), 0x01)
						}
					}
					return []*sim.Frame{mk(kind, nb)}
				}
			case 18:
				if kind == kCommit {
					held = append(held, f)
					return nil
				}
				if kind == kReveal {
					nb := once("reveal", func() []byte { return structural(c.Backend, body, c.Op) })
					var out []*sim.Frame
					for _, h := range release() {
						d := sha256.Sum256(nb)
						g := *h
						g.Data = append([]byte{h.Data[0], kCommit}, d[:]...)
						out = append(out, &g)
					}
					return append(out, mk(kind, nb))
				}
			case 19:
				if int(kind) == c.Kind && (kind != kShare || victim[f.To]) {
					key := fmt.Sprintf("k%d", kind)
					if kind == kShare {
						key = fmt.Sprintf("k%d-%d", kind, f.To)
					}
					return []*sim.Frame{mk(kind, once(key, func() []byte { return c.Mut.apply(body, nil) }))}
				}
			}
			return []*sim.Frame{f}
		}

		d := &sim.Driver{Net: k.Net, Sched: &c.Sched, DrainAfterDone: true, HardStop: 40 * time.Second}
		calls := k.KeyGenCalls(ctx)
		d.Calls = calls
		if strat == 15 {
			// shares-last: released once the puppet has sent its reveal or nothing else can happen
			d.Extra = func() []sim.Action {
				if len(held) > 0 && (sentKinds[kReveal] || len(k.Net.Pending()) == 0) {
					return []sim.Action{{Name: "release-shares", Slot: 777, Do: func() {
						for _, h := range release() {
							k.Net.Inject(h)
						}
					}}}
				}
				return nil
			}
		}
		d.Run()
		if f := driverFailure("C05", d); f != nil {
			fail = f
			return
		}
		for i, call := range calls {
			p := int(parties[i])
			if p == c.Byz {
				continue // the puppet's own result is not judged
			}
			if !call.IsDone() {
				fail = vh.Failf("C05/hang/"+c.Backend, "honest party %d has not returned by the deadline under strategy %s", p, info.Strategy)
				return
			}
			if call.Panic != "" {
				fail = vh.Failf(fmt.Sprintf("C05/panic/%s/%s", c.Backend, info.Strategy), "honest party %d panicked under strategy %s: %s", p, info.Strategy, call.Panic)
				return
			}
			if call.Err != nil {
				info.Results[p] = "error: " + call.Err.Error()
			} else {
				info.Results[p] = "ok"
				shares[p] = call.Data
			}
		}
		cancel()
		time.Sleep(2 * time.Minute)
	})
	info.Leaked = br.Leaked
	if br.Panic != "" {
		o.Fail = vh.Failf("C05/harness-panic", "%s", br.Panic)
		return o
	}
	info.Successes = len(shares)
	o.Key = fmt.Sprintf("%+v", c)
	o.Classes = append(o.Classes, "strategy="+info.Strategy, "backend="+c.Backend, fmt.Sprintf("t==n:%v", c.T == c.N))
	o.NonTrivial = strat != 0 && (info.Delivered > 0 || info.Withheld > 0)
	if len(shares) > 0 && strat != 0 {
		o.Classes = append(o.Classes, "some-honest-success-under-deviation")
	}
	if fail != nil {
		o.Fail = fail
		return o
	}
	if revealEarly != "" {
		o.Fail = vh.Failf("C05/reveal-before-all-commitments/"+c.Backend, "%s (strategy %s)", revealEarly, info.Strategy)
		return o
	}
	// commitment binding: a party that completed must have held, before it disclosed its own key, a commitment of the
	// deviating participant to the very key it then accepted from it
	for p := range shares {
		r := byzFirstReveal[uint16(p)]
		if r == nil {
			continue
		}
		want := sha256.Sum256(r)
		bound := false
		for _, cm := range byzCommitsBefore[uint16(p)] {
			if bytes.Equal(cm, want[:]) {
				bound = true
			}
		}
		if !bound {
			o.Fail = vh.Failf("C05/"+c.Backend+"/commitment-not-binding", "honest party %d completed the DKG although, when it disclosed its own key, it held no commitment of participant %d to the key it later accepted from it (%d commitments of that participant held at that time; strategy %s, n=%d t=%d): the participant could choose its key after seeing the honest ones", p, c.Byz, len(byzCommitsBefore[uint16(p)]), info.Strategy, c.N, c.T)
			return o
		}
	}
	if strat == 0 && len(shares) != c.N-1 {
		o.Fail = vh.Failf("C05/control-failed/"+c.Backend, "honest control run did not complete: %v", info.Results)
		return o
	}
	o.Fail = c05Consistency(c, parties, shares, info)
	return o
}

func releaseFor(held *[]*sim.Frame, to uint16) []*sim.Frame {
	var out, rest []*sim.Frame
	for _, h := range *held {
		if h.To == to {
			out = append(out, h)
		} else {
			rest = append(rest, h)
		}
	}
	*held = rest
	return out
}

// c05Consistency: among honest parties that succeeded: identical public
// material, published key matches share, every t-subset of them signs validly.
func c05Consistency(c c05Case, parties []uint16, shares map[int][]byte, info *c05Info) *vh.Failure {
	if len(shares) == 0 {
		return nil
	}
	var ids []int
	for p := range shares {
		ids = append(ids, p)
	}
	ids = sortedInts(ids)
	sigBase := "C05/" + c.Backend
	if c.Backend == "bls" {
		var ref []byte
		signers := map[int]*bls.TBLS{}
		for _, p := range ids {
			tb := &bls.TBLS{Logger: &sim.Logger{}, Party: uint16(p)}
			tb.Init(parties, c.T, nil)
			if err := tb.SetShareData(shares[p]); err != nil {
				return vh.Failf(sigBase+"/unusable-output", "party %d returned success but its output does not load: %v", p, err)
			}
			pp, _ := tb.ThresholdPK()
			if ref == nil {
				ref = pp
			} else if !bytes.Equal(ref, pp) {
				return vh.Failf(sigBase+"/split-public-material", "honest parties %d and %d completed with different public material under strategy %s (n=%d t=%d byz=%d victims=%v)", ids[0], p, info.Strategy, c.N, c.T, c.Byz, c.Victims)
			}
			signers[p] = tb
		}
		var v bls.Verifier
		if err := v.Init(ref); err != nil {
			return vh.Failf(sigBase+"/unusable-output", "public parameters of a completed DKG do not load: %v", err)
		}
		var params bls.PublicParams
		_, _ = asn1.Unmarshal(ref, &params)
		dg := []byte("c05-digest")
		partial := map[int][]byte{}
		for _, p := range ids {
			s, _ := signers[p].Sign(nil, dg)
			partial[p] = s
			ppi, _ := asn1.Marshal(bls.PublicParams{Parties: params.Parties, PublicKeys: params.PublicKeys, ThresholdPK: params.PublicKeys[p-1]})
			var vi bls.Verifier
			if err := vi.Init(ppi); err != nil || vi.Verify(dg, s) != nil {
				return vh.Failf(sigBase+"/share-key-mismatch", "honest party %d completed but its share does not match its published key under strategy %s (n=%d t=%d byz=%d)", p, info.Strategy, c.N, c.T, c.Byz)
			}
		}
		var fail *vh.Failure
		forSubsetsOf(ids, c.T, func(sub []int) bool {
			var ss [][]byte
			var who []uint16
			for _, p := range sub {
				ss = append(ss, partial[p])
				who = append(who, uint16(p))
			}
			agg, err := v.AggregateSignatures(ss, who)
			if err != nil || v.Verify(dg, agg) != nil {
				fail = vh.Failf(sigBase+"/poisoned-key", "honest parties %v completed under strategy %s but cannot jointly sign under the reported threshold key (n=%d t=%d byz=%d victims=%v)", sub, info.Strategy, c.N, c.T, c.Byz, c.Victims)
				return false
			}
			return true
		})
		return fail
	}
	// PS
	var ref []byte
	tps := map[int]*ps.TPS{}
	for _, p := range ids {
		tp := &ps.TPS{Curve: math.Curves[1], Party: uint16(p), Logger: &sim.Logger{}, MessageLength: c.L}
		tp.Init(parties, c.T, nil)
		var err error
		func() {
			defer func() {
				if r := recover(); r != nil {
					err = fmt.Errorf("panic: %v", r)
				}
			}()
			err = tp.SetShareData(shares[p])
		}()
		if err != nil {
			return vh.Failf(sigBase+"/unusable-output", "party %d returned success but its output does not load: %v", p, err)
		}
		tpk, _ := tp.ThresholdPK()
		if ref == nil {
			ref = tpk
		} else if !bytes.Equal(ref, tpk) {
			return vh.Failf(sigBase+"/split-public-material", "honest parties %d and %d completed with different public material under strategy %s (n=%d t=%d byz=%d victims=%v)", ids[0], p, info.Strategy, c.N, c.T, c.Byz, c.Victims)
		}
		tps[p] = tp
	}
	var fail *vh.Failure
	func() {
		defer func() {
			if r := recover(); r != nil {
				fail = vh.Failf(sigBase+"/unusable-output", "public material of a completed DKG makes the prover panic: %v", r)
			}
		}()
		pr := &ps.Prover{Logger: &sim.Logger{}}
		if err := pr.Init(math.Curves[1], c.L, ref, parties); err != nil {
			fail = vh.Failf(sigBase+"/unusable-output", "public material of a completed DKG does not load: %v", err)
			return
		}
		var vf ps.Verifier
		if err := vf.Init(math.Curves[1], c.L, ref); err != nil {
			fail = vh.Failf(sigBase+"/unusable-output", "public material of a completed DKG does not load: %v", err)
			return
		}
		msgs := make([][]byte, c.L)
		for i := range msgs {
			msgs[i] = []byte{byte(i)}
		}
		req, secret := pr.Blind(msgs)
		ws := map[int]ps.SignatureWitness{}
		for _, p := range ids {
			sig, err := tps[p].Sign(context.Background(), req.Bytes())
			if err != nil {
				fail = vh.Failf(sigBase+"/share-unusable", "honest party %d completed but cannot sign a valid request: %v", p, err)
				return
			}
			w, err := pr.UnBlind(uint16(p), sig, &secret)
			if err != nil {
				fail = vh.Failf(sigBase+"/share-key-mismatch", "honest party %d completed but its share does not match its published key under strategy %s (n=%d t=%d byz=%d): %v", p, info.Strategy, c.N, c.T, c.Byz, err)
				return
			}
			ws[p] = w
		}
		cnt := 0
		forSubsetsOf(ids, c.T, func(sub []int) bool {
			if len(sub) != c.T || cnt >= 3 {
				return true
			}
			cnt++
			var who []uint16
			var wl []ps.SignatureWitness
			for _, p := range sub {
				who = append(who, uint16(p))
				wl = append(wl, ws[p])
			}
			pok := pr.ProveKnowledgeOfSignature(&secret, who, wl)
			if err := vf.Verify(pok.Bytes()); err != nil {
				fail = vh.Failf(sigBase+"/poisoned-key", "honest parties %v completed under strategy %s but their proof of knowledge does not verify under the reported threshold key (n=%d t=%d byz=%d): %v", sub, info.Strategy, c.N, c.T, c.Byz, err)
				return false
			}
			return true
		})
	}()
	return fail
}

// forSubsetsOf enumerates subsets of ids with size >= t.
func forSubsetsOf(ids []int, t int, f func([]int) bool) {
	n := len(ids)
	for mask := 1; mask < 1<<n; mask++ {
		var sub []int
		for i := 0; i < n; i++ {
			if mask&(1<<i) != 0 {
				sub = append(sub, ids[i])
			}
		}
		if len(sub) < t {
			continue
		}
		if !f(sub) {
			return
		}
	}
}

func c05Sample(c c05Case, o *vh.Outcome) interface{} {
	return map[string]interface{}{"backend": c.Backend, "n": c.N, "t": c.T, "byz": c.Byz, "victims": c.Victims, "info": o.Info}
}

func TestC05B(t *testing.T) {
	theT = t
	maxN := 4
	if vh.Thorough() {
		maxN = 5
	}
	vh.Prop[c05Case]{ID: "C05", Test: "TestC05B", Gen: genC05(maxN), Run: runC05, Sample: c05Sample}.Main(t)
}
