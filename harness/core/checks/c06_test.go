package checks

import (
	"bytes"
	"context"
	"fmt"
	"sort"
	"strings"
	"testing"
	"time"

	tss "github.com/IBM/TSS/types"
	"pgregory.net/rapid"

	"verif/core/backends"
	"verif/core/sim"
	"verif/core/stack"
	"verif/vh"
)

// C06: node-id / party-id translation (DESIGN.md §3 C06). Full stack with spy
// backends; membership maps with generated collisions (replicas).

type c06Case struct {
	Nodes   []int // universal identifiers (distinct)
	Parties []int // party identifier of each node (collisions = replicas)
	Part    []int // positions of the nodes that take part in the session
	Op      string
	Silent  bool
	Sched   sim.Schedule
}

func genC06(t *rapid.T) c06Case {
	var c c06Case
	identity := rapid.IntRange(0, 5).Draw(t, "identity") == 0
	m := rapid.IntRange(3, 7).Draw(t, "m")
	seen := map[int]bool{}
	for len(c.Nodes) < m {
		var id int
		if rapid.Bool().Draw(t, "smallnode") {
			id = rapid.IntRange(1, 60).Draw(t, "node")
		} else {
			id = genID(t, "node")
		}
		if !seen[id] {
			seen[id] = true
			c.Nodes = append(c.Nodes, id)
		}
	}
	sort.Ints(c.Nodes)
	if identity {
		c.Parties = append([]int(nil), c.Nodes...)
	} else {
		// party identifiers with collisions: draw from a small pool
		np := rapid.IntRange(2, m).Draw(t, "nparties")
		pool := map[int]bool{}
		var plist []int
		for len(plist) < np {
			var p int
			if rapid.Bool().Draw(t, "smallparty") {
				p = rapid.IntRange(1, 30).Draw(t, "party")
			} else {
				p = genID(t, "party")
			}
			if !pool[p] {
				pool[p] = true
				plist = append(plist, p)
			}
		}
		for i := 0; i < m; i++ {
			if i < np {
				c.Parties = append(c.Parties, plist[i]) // every party has at least one node
			} else {
				c.Parties = append(c.Parties, plist[rapid.IntRange(0, np-1).Draw(t, "replicaOf")])
			}
		}
		perm := rapid.Permutation(seq(0, m-1)).Draw(t, "pperm")
		shuffled := make([]int, m)
		for i, j := range perm {
			shuffled[i] = c.Parties[j]
		}
		c.Parties = shuffled
	}
	// participants: usually one replica per party; sometimes two replicas of one party (refusal clause)
	dup := !identity && rapid.IntRange(0, 4).Draw(t, "dup") == 0
	byParty := map[int][]int{}
	for i, p := range c.Parties {
		byParty[p] = append(byParty[p], i)
	}
	var parties []int
	for p := range byParty {
		parties = append(parties, p)
	}
	sort.Ints(parties)
	k := rapid.IntRange(2, len(parties)).Draw(t, "k")
	chosen := rapid.Permutation(parties).Draw(t, "chosen")[:k]
	for _, p := range chosen {
		reps := byParty[p]
		c.Part = append(c.Part, reps[rapid.IntRange(0, len(reps)-1).Draw(t, "replica")])
	}
	if dup {
		for _, p := range chosen {
			if len(byParty[p]) > 1 {
				for _, r := range byParty[p] {
					in := false
					for _, x := range c.Part {
						if x == r {
							in = true
						}
					}
					if !in {
						c.Part = append(c.Part, r)
						break
					}
				}
				break
			}
		}
	}
	sort.Ints(c.Part)
	c.Op = rapid.SampledFrom([]string{"keygen", "sign"}).Draw(t, "op")
	c.Silent = rapid.Bool().Draw(t, "silent")
	c.Sched = genSchedule(t, 200)
	return c
}

type c06Info struct {
	Duplicate bool
	Identity  bool
	Results   map[int]string
	Inits     int
	OnMsgs    int
	P2P       int
}

func runC06(c c06Case) *vh.Outcome {
	o := &vh.Outcome{}
	info := &c06Info{Results: map[int]string{}}
	o.Info = info
	membership := map[uint16]uint16{}
	for i, n := range c.Nodes {
		membership[uint16(n)] = uint16(c.Parties[i])
	}
	var partNodes []uint16
	partyCount := map[uint16]int{}
	nodeOfParty := map[uint16]uint16{} // within the session
	info.Identity = true
	for _, p := range c.Part {
		n := uint16(c.Nodes[p])
		partNodes = append(partNodes, n)
		partyCount[membership[n]]++
		nodeOfParty[membership[n]] = n
		if membership[n] != n {
			info.Identity = false
		}
	}
	for _, cnt := range partyCount {
		if cnt > 1 {
			info.Duplicate = true
		}
	}
	var wantInit []uint16
	for p := range partyCount {
		wantInit = append(wantInit, p)
	}
	sort.Slice(wantInit, func(i, j int) bool { return wantInit[i] < wantInit[j] })
	sess := "dkg"
	if c.Op == "sign" {
		sess = "sign"
	}
	tape := &backends.Tape{}
	var fail *vh.Failure
	var log []*sim.Frame

	br := sim.Bubble(theT, func() {
		net := sim.NewNet()
		mk := func(node uint16, session string) *backends.Rec {
			sp := membership[node]
			return &backends.Rec{Node: node, Tape: tape, Script: backends.DefaultScript(), Session: session, SelfParty: &sp}
		}
		cl := stack.New(net, stack.Config{Membership: membership, Silent: c.Silent, Threshold: len(partNodes) - 1,
			KGF: func(node uint16) tss.KeyGenFactory {
				return func(id uint16) tss.KeyGenerator { r := mk(node, "dkg"); r.Party = id; return r }
			},
			SF: func(node uint16) tss.SignerFactory {
				return func(id uint16) tss.Signer { r := mk(node, "sign"); r.Party = id; return r }
			},
			Pick: func(uint16) func([]byte, int) []uint16 {
				return func([]byte, int) []uint16 { return append([]uint16(nil), partNodes...) }
			}})
		defer cl.StopAll()
		ctx, cancel := context.WithTimeout(context.Background(), 20*time.Second)
		defer cancel()
		if c.Op == "sign" {
			for _, n := range partNodes {
				cl.Nodes[n].Party.SetStoredData([]byte(fmt.Sprintf("rec:%d", membership[n])))
			}
		}
		d := &sim.Driver{Net: net, Sched: &c.Sched, DrainAfterDone: true, HardStop: 30 * time.Second}
		for _, n := range partNodes {
			if c.Op == "sign" {
				d.Calls = append(d.Calls, cl.SignCall(ctx, n, []byte("0123456789abcdef0123456789abcdef"), "c06-topic"))
			} else {
				d.Calls = append(d.Calls, cl.KeyGenCall(ctx, n, len(partNodes), 2))
			}
		}
		d.Run()
		if f := driverFailure("C06", d); f != nil {
			fail = f
			return
		}
		for i, call := range d.Calls {
			n := int(partNodes[i])
			switch {
			case call.Panic != "":
				fail = vh.Failf("C06/panic/"+c.Op, "%s on node %d panicked: %s", c.Op, n, call.Panic)
				return
			case !call.IsDone():
				info.Results[n] = "not returned"
			case call.Err != nil:
				info.Results[n] = "error: " + call.Err.Error()
			default:
				info.Results[n] = "ok"
			}
		}
		log = net.LogCopy()
		cancel()
		cl.StopAll()
		time.Sleep(time.Minute)
	})
	if br.Panic != "" {
		o.Fail = vh.Failf("C06/harness-panic", "%s", br.Panic)
		return o
	}
	o.Key = fmt.Sprintf("%v/%v/%v/%s/%v", c.Nodes, c.Parties, c.Part, c.Op, c.Silent)
	o.NonTrivial = !info.Identity
	o.Classes = append(o.Classes, "op="+c.Op, fmt.Sprintf("silent=%v", c.Silent), fmt.Sprintf("identity-map=%v", info.Identity), fmt.Sprintf("two-replicas-selected=%v", info.Duplicate))
	replicas := len(c.Nodes) != len(uniqueInts(c.Parties))
	if replicas {
		o.Classes = append(o.Classes, "universe-has-replicas")
	}
	if fail != nil {
		o.Fail = fail
		return o
	}
	path := c.Op
	events := tape.Snapshot()

	if info.Duplicate {
		// (d) a session in which two selected nodes represent the same party is refused with an error
		for n, r := range info.Results {
			if r == "ok" {
				o.Fail = vh.Failf("C06/dup-refused/"+path, "nodes %v include two replicas of one party (map %v) but %s on node %d succeeded", partNodes, membership, c.Op, n)
				return o
			}
		}
		for _, e := range events {
			if e.Kind == "init" && e.Session == sess {
				o.Fail = vh.Failf("C06/dup-refused/"+path, "nodes %v include two replicas of one party (map %v) but the backend of node %d was initialised with %v", partNodes, membership, e.Node, e.Parties)
				return o
			}
		}
		o.Classes = append(o.Classes, "duplicate-refused")
		return o
	}

	// transparency: with distinct parties, everybody taking part and every frame delivered, the session succeeds whatever the map
	// (it does under the identity map - C01/C04/C13 - so a failure here is the translation's)
	for _, n := range partNodes {
		if r := info.Results[int(n)]; r != "ok" {
			o.Fail = vh.Failf("C06/session-failed/"+path, "%s by nodes %v (map %v, silent=%v): every selected node took part, they represent distinct parties and every frame was delivered, yet node %d ended with %q", c.Op, partNodes, membership, c.Silent, n, r)
			return o
		}
	}
	for _, e := range events {
		if e.Session != sess {
			continue
		}
		switch e.Kind {
		case "init":
			info.Inits++
			// (a) exactly the sorted party identifiers of the agreed participants
			if fmt.Sprint(e.Parties) != fmt.Sprint(wantInit) {
				o.Fail = vh.Failf("C06/init-list/"+path, "backend of node %d was initialised with %v, expected the sorted party identifiers %v of participants %v (map %v)", e.Node, e.Parties, wantInit, partNodes, membership)
				return o
			}
		case "onmsg":
			info.OnMsgs++
			// (b) attributed to the party identifier of the authenticated sender
			src, ok := nodeFromPayload(e.Payload)
			if !ok {
				continue
			}
			if e.From != membership[src] {
				o.Fail = vh.Failf("C06/from/"+path, "backend of node %d was handed a message of node %d attributed to %d, expected party identifier %d (map %v)", e.Node, src, e.From, membership[src], membership)
				return o
			}
		case "emit":
			if e.Bcast {
				continue
			}
			info.P2P++
			// (c) exactly one frame, to the node that represents the addressed party in this session
			wire := append([]byte{0xFF}, e.Payload...)
			var dests []uint16
			for _, f := range log {
				if f.MsgType == 2 && bytes.Equal(f.Data, wire) {
					dests = append(dests, f.To)
				}
			}
			want, known := nodeOfParty[e.To]
			if !known {
				continue // the backend addressed a party that is not in its Init list: covered by clause (a)
			}
			if len(dests) != 1 || dests[0] != want {
				kind := "C06/p2p-dest/"
				if replicas {
					kind = "C06/p2p-dest-replica/"
				}
				o.Fail = vh.Failf(kind+path, "point-to-point message of node %d for party %d was transmitted to nodes %v, expected exactly node %d which represents that party in this session (participants %v, map %v)", e.Node, e.To, dests, want, partNodes, membership)
				return o
			}
		}
	}
	if info.Inits > 0 {
		o.Classes = append(o.Classes, "backend-initialised")
	}
	if info.P2P > 0 {
		o.Classes = append(o.Classes, "p2p-observed")
	}
	return o
}

func uniqueInts(in []int) []int {
	m := map[int]bool{}
	var out []int
	for _, v := range in {
		if !m[v] {
			m[v] = true
			out = append(out, v)
		}
	}
	return out
}

func nodeFromPayload(p []byte) (uint16, bool) {
	if len(p) < 6 {
		return 0, false
	}
	body := string(p[5:])
	i := strings.Index(body, ";n")
	if i < 0 {
		return 0, false
	}
	var n int
	if _, err := fmt.Sscanf(body[i+2:], "%d", &n); err != nil {
		return 0, false
	}
	return uint16(n), true
}

func TestC06(t *testing.T) {
	theT = t
	vh.Prop[c06Case]{ID: "C06", Test: "TestC06", Gen: genC06, Run: runC06,
		Sample: func(c c06Case, o *vh.Outcome) interface{} {
			return map[string]interface{}{"nodes": c.Nodes, "parties": c.Parties, "participants": c.Part, "op": c.Op, "silent": c.Silent, "info": o.Info}
		}}.Main(t)
}
