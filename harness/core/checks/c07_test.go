package checks

import (
	"context"
	"fmt"
	"sort"
	"sync"
	"testing"
	"testing/synctest"
	"time"

	discovery "github.com/IBM/TSS/disc"
	tss "github.com/IBM/TSS/types"
	"pgregory.net/rapid"

	"verif/core/sim"
	"verif/vh"
)

// C07: membership synchronisation (DESIGN.md §3 C07). disc.Member instances on
// the simulated network under virtual time; Byzantine members are real Member
// puppets whose frames (type | 32-byte tag | 2 bytes per member) are rewritten.

type c07Lie struct {
	Kind int // 0 none, 1 view:add ids, 2 view:drop one, 3 view:permute, 4 view:duplicate, 5 view:arbitrary, 6 type rewrite, 7 foreign tag, 8 drop, 9 replay old frame, 10 premature response, 11 truncate/extend raw bytes
	A, B int
	Dest int // bit mask over universe positions: which destinations get the lie (others get the honest frame)
}

type c07Case struct {
	Universe []int // configured member ids (distinct)
	Honest   []int // positions (into Universe) of honest members that invoke Synchronize
	Byz      []int // positions of Byzantine members (puppets that also invoke it)
	Expected int
	Topics   int
	Lies     []c07Lie
	Sched    sim.Schedule
	ProbeMs  int
	StartLag []int // per honest participant: driver steps before which it is not started (staggered starts)
	// Scripted: the Byzantine members' own frames are all withheld (their puppets only serve to learn
	// their tag); what they send is exactly the generated Script.
	Scripted bool
	Script   []c07Move
	// Outsider: a node that the transport authenticates under an identifier that is NOT a configured member. It sends
	// synchroniser frames that carry the tag of a configured member (tags are not secret), naming itself in the views.
	HasOutsider bool
	Outsider    int
	OutMoves    []c07OutMove
	// Inline: deliveries that happen in the MIDDLE of a library function - when honest member Member makes its Nth debug
	// log call, the next frame pending for it (on its Link-th non-empty incoming link) is handled right there, on the
	// logging goroutine. The log statements are the yield points; no quiescent point of the schedule separates, e.g., the
	// end of the collection loop of Synchronize from the query it sends next.
	Inline []c07Inline
}

type c07Inline struct {
	Member int // honest member index
	Fmt    int // which log statement: the Fmt-th distinct format string this member uses (in order of first use)
	Nth    int // 0 = at every execution of that statement, otherwise only at its Nth execution
}

type c07OutMove struct {
	Type  int // 1 membership, 2 query, 3 response
	TagOf int // universe position of the configured member whose tag is used
	View  int // 0 X's latest view + outsider, 1 {outsider, X}, 2 honest participants + outsider, 3 X's latest view as is, 4 subset by Mask + outsider, 5 honest participants with the tag owner in place of the outsider
	X     int
	Mask  int
	Dest  int // honest member index
}

type c07Move struct {
	Src  int // Byzantine member index
	Type int // 1 membership, 2 query, 3 response
	View int // 5 burst: universe+2 responses with pairwise different views; 0 copy of the latest view announced by honest member X, 1 {self, X}, 2 all honest participants + self, 3 X's latest view + self, 4 subset of the universe given by Mask
	X    int
	Mask int
	Dest int // honest member index
}

var boundaryIDs = []int{0, 1, 2, 127, 128, 255, 256, 257, 511, 512, 0x7FFF, 0x8000, 0xFF00, 0xFFFE, 0xFFFF, 0x0105, 0x0205}

func genID(t *rapid.T, label string) int {
	if rapid.IntRange(0, 2).Draw(t, label+"b") != 0 {
		return rapid.SampledFrom(boundaryIDs).Draw(t, label)
	}
	return rapid.IntRange(0, 65535).Draw(t, label)
}

func genUniverse(t *rapid.T, min, max int, small bool) []int {
	n := rapid.IntRange(min, max).Draw(t, "usize")
	seen := map[int]bool{}
	var ids []int
	for len(ids) < n {
		var id int
		if small {
			id = rapid.IntRange(1, 40).Draw(t, "id")
		} else {
			id = genID(t, "id")
		}
		if !seen[id] {
			seen[id] = true
			ids = append(ids, id)
		}
	}
	sort.Ints(ids)
	return ids
}

func genC07(byzantine bool) func(t *rapid.T) c07Case {
	return func(t *rapid.T) c07Case {
		var c c07Case
		c.Universe = genUniverse(t, 2, 8, rapid.IntRange(0, 3).Draw(t, "small") == 0)
		n := len(c.Universe)
		perm := rapid.Permutation(seq(0, n-1)).Draw(t, "perm")
		nb := 0
		if byzantine && n >= 3 {
			nb = rapid.IntRange(1, min(2, n-2)).Draw(t, "nbyz")
		}
		nh := rapid.IntRange(1, n-nb).Draw(t, "nhonest")
		if !byzantine {
			nh = rapid.IntRange(2, n).Draw(t, "nhonest")
		}
		c.Byz = sortedInts(perm[:nb])
		c.Honest = sortedInts(perm[nb : nb+nh])
		if byzantine {
			c.Expected = rapid.IntRange(max(2, nh-1), max(2, min(n, nh+nb+1))).Draw(t, "expected")
		} else {
			// mostly the exact count (liveness clause), sometimes off by one (error clause)
			c.Expected = nh + rapid.SampledFrom([]int{0, 0, 0, 0, 1, -1}).Draw(t, "expdelta")
			if c.Expected < 2 { // a synchronisation with oneself is not a session (every caller passes n >= 2 or threshold+1 >= 2)
				c.Expected = 2
			}
		}
		c.Topics = rapid.IntRange(1, 3).Draw(t, "topics")
		if byzantine {
			nl := rapid.IntRange(1, 6).Draw(t, "nlies")
			for i := 0; i < nl; i++ {
				c.Lies = append(c.Lies, c07Lie{
					Kind: rapid.IntRange(0, 11).Draw(t, "lie"),
					A:    rapid.IntRange(0, 70000).Draw(t, "la"),
					B:    rapid.IntRange(0, 70000).Draw(t, "lb"),
					Dest: rapid.IntRange(0, 255).Draw(t, "ldest"),
				})
			}
		}
		if byzantine && nb > 0 && rapid.Bool().Draw(t, "scripted") {
			c.Scripted = true
			c.Topics = 1
			c.Lies = nil
			for i := rapid.IntRange(1, 6).Draw(t, "nscript"); i > 0; i-- {
				c.Script = append(c.Script, c07Move{
					Src:  rapid.IntRange(0, nb-1).Draw(t, "ssrc"),
					Type: rapid.SampledFrom([]int{1, 1, 2, 3, 3}).Draw(t, "stype"),
					View: rapid.IntRange(0, 5).Draw(t, "sview"),
					X:    rapid.IntRange(0, nh-1).Draw(t, "sx"),
					Mask: rapid.IntRange(0, 255).Draw(t, "smask"),
					Dest: rapid.IntRange(0, nh-1).Draw(t, "sdest"),
				})
			}
		}
		if byzantine && rapid.Bool().Draw(t, "outsider") {
			c.HasOutsider = true
			in := map[int]bool{}
			for _, id := range c.Universe {
				in[id] = true
			}
			c.Outsider = rapid.Custom(func(t *rapid.T) int { return genID(t, "oid") }).Filter(func(x int) bool { return !in[x] }).Draw(t, "outsiderID")
			for i := rapid.IntRange(1, 8).Draw(t, "nout"); i > 0; i-- {
				c.OutMoves = append(c.OutMoves, c07OutMove{
					Type:  rapid.SampledFrom([]int{1, 1, 2, 3, 3}).Draw(t, "otype"),
					TagOf: rapid.IntRange(0, n-1).Draw(t, "otag"),
					View:  rapid.IntRange(0, 5).Draw(t, "oview"),
					X:     rapid.IntRange(0, nh-1).Draw(t, "ox"),
					Mask:  rapid.IntRange(0, 255).Draw(t, "omask"),
					Dest:  rapid.IntRange(0, nh-1).Draw(t, "odest"),
				})
			}
		}
		for i := rapid.IntRange(0, 4).Draw(t, "ninline"); i > 0; i-- {
			c.Inline = append(c.Inline, c07Inline{Member: rapid.IntRange(0, nh-1).Draw(t, "imember"), Fmt: rapid.IntRange(0, 7).Draw(t, "ifmt"), Nth: rapid.SampledFrom([]int{0, 0, 1, 2}).Draw(t, "inth")})
		}
		c.Sched = genSchedule(t, 300)
		c.ProbeMs = rapid.SampledFrom([]int{200, 200, 50, 1000}).Draw(t, "probe")
		for range c.Honest {
			c.StartLag = append(c.StartLag, rapid.SampledFrom([]int{0, 0, 0, 5, 30, 120}).Draw(t, "lag"))
		}
		return c
	}
}

type memberAdaptor struct{ m *discovery.Member }

func (a memberAdaptor) HandleMessage(in *tss.IncMessage) { a.m.HandleMessage(in.Source, in.Data) }

type c07Result struct {
	Member  int
	Topic   int
	Done    bool
	Err     string
	List    []uint16
	Ran     int  // how many times the continuation ran
	RanLate bool // continuation ran after Synchronize returned
	RetAt   time.Duration
	StartAt time.Duration // virtual time at which the call was started (staggered starts)
	EndAt   time.Duration // virtual time when the driver stopped
}

type c07Info struct {
	OutsiderFrames   int
	InlineDeliveries int
	Results          []c07Result
	Frames           int
	LiesApplied      int
	BigIDs           bool
	Staggered        bool
	Completed        int
}

const c07Deadline = 30 * time.Second

func topicBytes(i int) []byte {
	b := make([]byte, 32)
	for j := range b {
		b[j] = byte(0x40 + i*13 + j)
	}
	return b
}

func encodeView(ty byte, tag []byte, view []uint16) []byte {
	b := append([]byte{ty}, tag...)
	for _, p := range view {
		b = append(b, byte(p), byte(p>>8))
	}
	return b
}

func decodeView(b []byte) (byte, []byte, []uint16, bool) {
	if len(b) < 33 || (len(b)-33)%2 != 0 {
		return 0, nil, nil, false
	}
	var v []uint16
	for o := 33; o < len(b); o += 2 {
		v = append(v, uint16(b[o])|uint16(b[o+1])<<8)
	}
	return b[0], b[1:33], v, true
}

func runC07(c c07Case) *vh.Outcome {
	o := &vh.Outcome{}
	info := &c07Info{}
	o.Info = info
	uni := u16s(c.Universe)
	isByz := map[uint16]bool{}
	for _, p := range c.Byz {
		isByz[uni[p]] = true
	}
	for _, id := range c.Universe {
		if id > 255 {
			info.BigIDs = true
		}
	}
	var fail *vh.Failure
	var results []*c07Result
	var mu sync.Mutex
	// frames (by topic tag owner) that each Byzantine member delivered to each honest member: announced[to][topicIdx][from]
	announced := map[uint16]map[int]map[uint16]bool{}

	br := sim.Bubble(theT, func() {
		net := sim.NewNet()
		members := map[uint16]*discovery.Member{}
		var inlineObserve func(*sim.Frame) // what the driver's BeforeDeliver observes, for frames delivered inline
		for _, id := range uni {
			id := id
			lg := &sim.Logger{}
			m := &discovery.Member{Membership: append([]uint16(nil), uni...), ID: id, Logger: lg}
			for hi, hp := range c.Honest {
				if uni[hp] != id {
					continue
				}
				hi := hi
				inHook := false
				fmtIdx := map[string]int{}
				fmtCount := map[string]int{}
				var hmu sync.Mutex // several goroutines of one member log (one Synchronize per topic, the dispatcher)
				lg.OnDebug = func(format string) {
					hmu.Lock()
					if inHook {
						hmu.Unlock()
						return
					}
					if _, ok := fmtIdx[format]; !ok {
						fmtIdx[format] = len(fmtIdx)
					}
					fmtCount[format]++
					idx, cnt := fmtIdx[format], fmtCount[format]
					fire := false
					for _, in := range c.Inline {
						if in.Member%len(c.Honest) == hi && in.Fmt == idx && (in.Nth == 0 || in.Nth == cnt) {
							fire = true
						}
					}
					if fire {
						inHook = true
					}
					hmu.Unlock()
					if !fire {
						return
					}
					{
						// everything that is pending for this member is handled right here, in the middle of whatever
						// library function is logging
						for _, l := range net.Pending() {
							if l.To != id {
								continue
							}
							for f := net.Pop(l); f != nil; f = net.Pop(l) {
								info.InlineDeliveries++
								if inlineObserve != nil {
									inlineObserve(f)
								}
								members[id].HandleMessage(f.From, append([]byte(nil), f.Data...))
							}
						}
						hmu.Lock()
						inHook = false
						hmu.Unlock()
					}
				}
			}
			m.Broadcast = func(msg []byte) {
				for _, q := range uni {
					if q != id {
						net.Enqueue(&sim.Frame{From: id, To: q, MsgType: 1, Data: append([]byte(nil), msg...)})
					}
				}
			}
			m.Send = func(msg []byte, to uint16) {
				net.Enqueue(&sim.Frame{From: id, To: to, MsgType: 1, Data: append([]byte(nil), msg...)})
			}
			members[id] = m
			net.Attach(id, memberAdaptor{m})
		}
		// tags learnt from library-produced frames: tagOwner[tag] = (member, topic index) is not
		// computable by the harness; what it can know is which tag a member used (own frames).
		tagsOf := map[uint16][][]byte{} // member -> tags seen in its own frames
		// (read and written from several goroutines once deliveries happen inline, inside the members' own goroutines)
		var tagMu sync.Mutex
		getTags := func(id uint16) [][]byte {
			tagMu.Lock()
			defer tagMu.Unlock()
			return append([][]byte(nil), tagsOf[id]...)
		}
		var old []*sim.Frame
		counter := map[uint16]int{}
		net.Interpose = func(f *sim.Frame) []*sim.Frame {
			_, tag, _, ok := decodeView(f.Data)
			if ok {
				tagMu.Lock()
				known := false
				for _, t := range tagsOf[f.From] {
					if string(t) == string(tag) {
						known = true
					}
				}
				if !known {
					tagsOf[f.From] = append(tagsOf[f.From], append([]byte(nil), tag...))
				}
				tagMu.Unlock()
			}
			if c.Scripted && isByz[f.From] && !f.Injected {
				return nil // withheld: the script decides what this member sends
			}
			if !isByz[f.From] || len(c.Lies) == 0 {
				return []*sim.Frame{f}
			}
			old = append(old, f)
			k := counter[f.From]
			counter[f.From]++
			lie := c.Lies[k%len(c.Lies)]
			pos := 0
			for i, q := range uni {
				if q == f.To {
					pos = i
				}
			}
			if lie.Dest&(1<<uint(pos%8)) == 0 || lie.Kind == 0 {
				return []*sim.Frame{f}
			}
			ty, tag, view, ok := decodeView(f.Data)
			if !ok {
				return []*sim.Frame{f}
			}
			info.LiesApplied++
			g := *f
			switch lie.Kind {
			case 1:
				view = append(view, uint16(lie.A), uni[lie.B%len(uni)])
				g.Data = encodeView(ty, tag, view)
			case 2:
				if len(view) > 0 {
					i := lie.A % len(view)
					view = append(append([]uint16(nil), view[:i]...), view[i+1:]...)
				}
				g.Data = encodeView(ty, tag, view)
			case 3:
				if len(view) > 1 {
					i, j := lie.A%len(view), lie.B%len(view)
					view = append([]uint16(nil), view...)
					view[i], view[j] = view[j], view[i]
				}
				g.Data = encodeView(ty, tag, view)
			case 4:
				if len(view) > 0 {
					view = append(append([]uint16(nil), view...), view[lie.A%len(view)])
				}
				g.Data = encodeView(ty, tag, view)
			case 5:
				var v []uint16
				for i := 0; i < 1+lie.A%5; i++ {
					if (lie.B>>uint(i))&1 == 0 {
						v = append(v, uni[(lie.A+i)%len(uni)])
					} else {
						v = append(v, uint16(lie.B+i*257))
					}
				}
				g.Data = encodeView(ty, tag, v)
			case 6:
				g.Data = encodeView(byte(1+lie.A%3), tag, view)
			case 7: // answer for somebody else: another member's tag under the own source
				other := uni[lie.A%len(uni)]
				if ts := getTags(other); len(ts) > 0 {
					g.Data = encodeView(byte(1+lie.B%3), ts[lie.B%len(ts)], view)
				}
			case 8:
				return nil
			case 9:
				if len(old) > 0 {
					r := *old[lie.A%len(old)]
					r.To = f.To
					r.From = f.From
					return []*sim.Frame{f, &r}
				}
			case 10:
				g.Data = encodeView(3, tag, view)
				return []*sim.Frame{&g, f}
			case 11:
				d := append([]byte(nil), f.Data...)
				if lie.A%2 == 0 {
					d = d[:lie.B%(len(d)+1)]
				} else {
					d = append(d, byte(lie.B), byte(lie.A))[:len(d)+1+lie.B%2]
				}
				g.Data = d
			}
			return []*sim.Frame{&g}
		}
		net.OnSend = nil

		root, cancel := context.WithCancel(context.Background())
		defer cancel()
		// staggered calls may start up to 120 steps (24 s of forced ticks) late; each has its own 30 s deadline
		d := &sim.Driver{Net: net, Sched: &c.Sched, DrainAfterDone: true, HardStop: c07Deadline + 40*time.Second}
		// observe what Byzantine members deliver to honest ones
		d.BeforeDeliver = func(f *sim.Frame) bool {
			if isByz[f.From] && !isByz[f.To] {
				if _, tag, _, ok := decodeView(f.Data); ok {
					for ti := 0; ti < c.Topics; ti++ {
						// the tag is "B's tag on topic ti" iff B itself used it in library-produced frames; we
						// cannot tell topics apart from the tag alone, so any well-formed frame with one of
						// B's own tags counts as an announcement on the topic whose puppet produced that tag.
						_ = ti
					}
					mu.Lock()
					if announced[f.To] == nil {
						announced[f.To] = map[int]map[uint16]bool{}
					}
					if announced[f.To][0] == nil {
						announced[f.To][0] = map[uint16]bool{}
					}
					for _, t := range getTags(f.From) {
						if string(t) == string(tag) {
							announced[f.To][0][f.From] = true
						}
					}
					mu.Unlock()
				}
			}
			return true
		}
		// tags of every configured member on topic 0, produced by the library itself (throw-away members that are
		// connected to nothing): what an outsider can compute just as well
		refTag := map[uint16][]byte{}
		if c.HasOutsider {
			for _, id := range uni {
				id := id
				grab := func(msg []byte) {
					if _, tag, _, ok := decodeView(msg); ok && refTag[id] == nil {
						refTag[id] = append([]byte(nil), tag...)
					}
				}
				tm := &discovery.Member{Membership: append([]uint16(nil), uni...), ID: id, Logger: &sim.Logger{}, Broadcast: grab, Send: func(msg []byte, _ uint16) { grab(msg) }}
				tctx, tcancel := context.WithCancel(context.Background())
				go func() { _ = tm.Synchronize(tctx, func([]uint16) {}, topicBytes(0), c.Expected, time.Millisecond) }()
				time.Sleep(2 * time.Millisecond) // the first announcement goes out with the first probe tick
				synctest.Wait()
				tcancel()
				synctest.Wait()
			}
		}
		inlineObserve = func(f *sim.Frame) { d.BeforeDeliver(f) }
		var scriptAction, outsiderAction func() []sim.Action
		{
			latestView := func(id uint16) []uint16 {
				var v []uint16
				for _, f := range net.LogCopy() {
					if f.From == id && !f.Injected {
						if _, _, vw, ok := decodeView(f.Data); ok {
							v = vw
						}
					}
				}
				return v
			}
			si := 0
			oi := 0
			outsiderAction = func() []sim.Action {
				if !c.HasOutsider || oi >= len(c.OutMoves) {
					return nil
				}
				mv := c.OutMoves[oi]
				owner := uni[mv.TagOf%len(uni)]
				tag := refTag[owner]
				if tag == nil {
					oi++
					return nil
				}
				return []sim.Action{{Name: "outsider", Slot: 950 + oi, Do: func() {
					oi++
					out := uint16(c.Outsider)
					x := uni[c.Honest[mv.X%len(c.Honest)]]
					dest := uni[c.Honest[mv.Dest%len(c.Honest)]]
					var view []uint16
					switch mv.View {
					case 0:
						view = append(append([]uint16(nil), latestView(x)...), out)
					case 1:
						view = []uint16{out, x}
					case 2:
						for _, p := range c.Honest {
							view = append(view, uni[p])
						}
						view = append(view, out)
					case 3:
						view = append([]uint16(nil), latestView(x)...)
					case 4:
						for i, id := range uni {
							if mv.Mask&(1<<uint(i%8)) != 0 {
								view = append(view, id)
							}
						}
						view = append(view, out)
					default:
						for _, p := range c.Honest {
							view = append(view, uni[p])
						}
						view = append(view, owner)
					}
					seen := map[uint16]bool{}
					var dedup []uint16
					for _, v := range view {
						if !seen[v] {
							seen[v] = true
							dedup = append(dedup, v)
						}
					}
					sort.Slice(dedup, func(i, j int) bool { return dedup[i] < dedup[j] })
					info.OutsiderFrames++
					net.Inject(&sim.Frame{From: out, To: dest, MsgType: 1, Data: encodeView(byte(mv.Type), tag, dedup)})
				}}}
			}
			scriptAction = func() []sim.Action {
				if !c.Scripted || si >= len(c.Script) {
					return nil
				}
				mv := c.Script[si]
				src := uni[c.Byz[mv.Src%len(c.Byz)]]
				if len(getTags(src)) == 0 {
					return nil // tag not learnt yet (the puppet has not produced a frame)
				}
				return []sim.Action{{Name: "byz-script", Slot: 900 + si, Do: func() {
					si++
					x := uni[c.Honest[mv.X%len(c.Honest)]]
					dest := uni[c.Honest[mv.Dest%len(c.Honest)]]
					var view []uint16
					switch mv.View {
					case 0:
						view = latestView(x)
					case 1:
						view = []uint16{src, x}
					case 2:
						for _, p := range c.Honest {
							view = append(view, uni[p])
						}
						view = append(view, src)
					case 3:
						view = append(append([]uint16(nil), latestView(x)...), src)
					default:
						for i, id := range uni {
							if mv.Mask&(1<<uint(i%8)) != 0 {
								view = append(view, id)
							}
						}
					}
					if mv.View == 5 {
						info.LiesApplied++
						for k := 0; k < len(uni)+2; k++ {
							v := append([]uint16(nil), uni[:1+k%len(uni)]...)
							v = append(v, uint16(40000+k))
							net.Inject(&sim.Frame{From: src, To: dest, MsgType: 1, Data: encodeView(byte(mv.Type), getTags(src)[0], v)})
						}
						return
					}
					sort.Slice(view, func(i, j int) bool { return view[i] < view[j] })
					info.LiesApplied++
					net.Inject(&sim.Frame{From: src, To: dest, MsgType: 1, Data: encodeView(byte(mv.Type), getTags(src)[0], view)})
				}}}
			}
		}
		d.Extra = func() []sim.Action { return append(scriptAction(), outsiderAction()...) }
		interval := time.Duration(c.ProbeMs) * time.Millisecond
		mkCall := func(id uint16, ti int, lag int, judged bool) *sim.Call {
			res := &c07Result{Member: int(id), Topic: ti}
			if judged {
				results = append(results, res)
			}
			return &sim.Call{Name: fmt.Sprintf("sync@%d/%d", id, ti), Start: func(call *sim.Call) {
				mu.Lock()
				res.StartAt = d.Now()
				mu.Unlock()
				ctx, cn := context.WithTimeout(root, c07Deadline)
				defer cn()
				returned := false
				err := members[id].Synchronize(ctx, func(l []uint16) {
					mu.Lock()
					res.Ran++
					res.List = append([]uint16(nil), l...)
					if returned {
						res.RanLate = true
					}
					mu.Unlock()
				}, topicBytes(ti), c.Expected, interval)
				mu.Lock()
				returned = true
				res.Done = true
				if err != nil {
					res.Err = err.Error()
				}
				mu.Unlock()
				call.Finish(nil, err)
			}}
		}
		lagOf := map[*sim.Call]int{}
		for i, p := range c.Honest {
			for ti := 0; ti < c.Topics; ti++ {
				call := mkCall(uni[p], ti, c.StartLag[i%len(c.StartLag)], true)
				lagOf[call] = c.StartLag[i%len(c.StartLag)]
				if lagOf[call] > 0 {
					info.Staggered = true
				}
				d.Calls = append(d.Calls, call)
			}
		}
		for _, p := range c.Byz {
			for ti := 0; ti < c.Topics; ti++ {
				d.Calls = append(d.Calls, mkCall(uni[p], ti, 0, false))
			}
		}
		// staggered starts: a call with lag L is not offered to the scheduler before step L
		all := d.Calls
		d.Calls = nil
		for _, cl := range all {
			if lagOf[cl] == 0 {
				d.Calls = append(d.Calls, cl)
			}
		}
		d.AfterStep = func() {
			for _, cl := range all {
				if lagOf[cl] > 0 && d.Steps >= lagOf[cl] {
					lagOf[cl] = 0
					d.Calls = append(d.Calls, cl)
				}
			}
		}
		d.Until = func() bool {
			for _, cl := range all {
				if lagOf[cl] > 0 || !cl.IsDone() {
					return false
				}
			}
			return len(net.Pending()) == 0
		}
		d.Run()
		for _, r := range results {
			r.EndAt = d.Now()
		}
		info.Frames = net.Sent()
		if f := driverFailure("C07", d); f != nil {
			fail = f
			return
		}
		for _, cl := range all {
			if cl.Panic != "" {
				fail = vh.Failf("C07/panic", "%s panicked: %s", cl.Name, cl.Panic)
				return
			}
		}
		cancel()
		time.Sleep(time.Minute)
	})
	if br.Panic != "" {
		o.Fail = vh.Failf("C07/harness-panic", "%s", br.Panic)
		return o
	}
	for _, r := range results {
		info.Results = append(info.Results, *r)
	}
	o.Key = fmt.Sprintf("%+v", c)
	o.NonTrivial = info.LiesApplied > 0 || info.BigIDs || info.Staggered || info.OutsiderFrames > 0 || info.InlineDeliveries > 0
	if info.OutsiderFrames > 0 {
		o.Classes = append(o.Classes, "outsider-with-a-member's-tag")
	}
	if info.InlineDeliveries > 0 {
		o.Classes = append(o.Classes, "delivery-in-the-middle-of-a-library-function")
	}
	if info.LiesApplied > 0 {
		o.Classes = append(o.Classes, "byzantine-lie-applied")
	}
	if info.BigIDs {
		o.Classes = append(o.Classes, "id>255")
	}
	if info.Staggered {
		o.Classes = append(o.Classes, "staggered-start")
	}
	if fail != nil {
		o.Fail = fail
		return o
	}

	honestOnTopic := map[uint16]bool{}
	for _, p := range c.Honest {
		honestOnTopic[uni[p]] = true
	}
	configured := map[uint16]bool{}
	for _, id := range uni {
		configured[id] = true
	}
	for _, r := range results {
		// return contract
		if !r.Done && r.EndAt-r.StartAt < c07Deadline+5*time.Second {
			// the driver stopped before this (late started) call's own deadline had passed: nothing to judge
			o.Discard = "driver-stopped-before-the-call's-deadline"
			return o
		}
		if !r.Done {
			o.Fail = vh.Failf("C07/hang", "Synchronize of member %d on topic %d did not return by deadline+grace (case %+v)", r.Member, r.Topic, c07Brief(c))
			return o
		}
		if r.Err == "" {
			info.Completed++
			if r.Ran != 1 {
				o.Fail = vh.Failf("C07/contract/continuation-count", "Synchronize of member %d returned nil but the continuation ran %d times", r.Member, r.Ran)
				return o
			}
		} else if r.Ran != 0 {
			o.Fail = vh.Failf("C07/contract/continuation-on-error", "Synchronize of member %d returned error %q but the continuation ran %d times", r.Member, r.Err, r.Ran)
			return o
		}
		if r.RanLate {
			o.Fail = vh.Failf("C07/contract/continuation-late", "continuation of member %d ran after Synchronize returned", r.Member)
			return o
		}
		if r.Err != "" {
			continue
		}
		// list validity
		l := r.List
		self := false
		for i, id := range l {
			if i > 0 && l[i-1] >= id {
				o.Fail = vh.Failf("C07/list/not-strictly-ascending", "member %d obtained list %v on topic %d (universe %v)", r.Member, l, r.Topic, c.Universe)
				return o
			}
			if int(id) == r.Member {
				self = true
			}
			if !configured[id] {
				o.Fail = vh.Failf("C07/list/non-member", "member %d obtained list %v containing %d which is not a configured member (universe %v)", r.Member, l, id, c.Universe)
				return o
			}
			if !isByz[id] && !honestOnTopic[id] {
				o.Fail = vh.Failf("C07/list/not-announced", "member %d obtained list %v containing honest member %d which never invoked Synchronize (universe %v, honest participants %v)", r.Member, l, id, c.Universe, c.Honest)
				return o
			}
			if isByz[id] && !announced[uint16(r.Member)][0][id] {
				o.Fail = vh.Failf("C07/list/not-announced", "member %d obtained list %v containing Byzantine member %d which never delivered a frame with its own tag to it", r.Member, l, id)
				return o
			}
		}
		if !self {
			o.Fail = vh.Failf("C07/list/self-missing", "member %d obtained list %v which does not contain itself", r.Member, l)
			return o
		}
		if len(l) != c.Expected {
			o.Fail = vh.Failf("C07/list/size", "member %d obtained list %v of size %d, expected %d", r.Member, l, len(l), c.Expected)
			return o
		}
		// agreement
		for _, q := range results {
			if q.Topic != r.Topic || q.Err != "" || !q.Done || q.Member == r.Member {
				continue
			}
			in := false
			for _, id := range l {
				if int(id) == q.Member {
					in = true
				}
			}
			if in && fmt.Sprint(q.List) != fmt.Sprint(l) {
				o.Fail = vh.Failf("C07/agreement", "members %d and %d both completed on topic %d, %d appears in %d's list, but the lists differ: %v vs %v (byz=%v)", r.Member, q.Member, r.Topic, q.Member, r.Member, l, q.List, c.Byz)
				return o
			}
		}
	}
	if info.Completed > 0 {
		o.Classes = append(o.Classes, "some-honest-completed")
	}
	// liveness (only without Byzantine members): exactly `expected` honest members invoked it
	if len(c.Byz) == 0 {
		if len(c.Honest) == c.Expected {
			for _, r := range results {
				if r.Err != "" {
					o.Fail = vh.Failf("C07/liveness", "exactly %d honest members invoked Synchronize on topic %d and every frame was delivered, but member %d failed: %s (universe %v, participants %v, probe %dms, lags %v)", c.Expected, r.Topic, r.Member, r.Err, c.Universe, c.Honest, c.ProbeMs, c.StartLag)
					return o
				}
			}
			o.Classes = append(o.Classes, "liveness-clause-checked")
		} else {
			o.Classes = append(o.Classes, "count-mismatch-run")
		}
	}
	return o
}

func c07Brief(c c07Case) string {
	return fmt.Sprintf("universe=%v honest=%v byz=%v expected=%d topics=%d", c.Universe, c.Honest, c.Byz, c.Expected, c.Topics)
}

func c07Sample(c c07Case, o *vh.Outcome) interface{} {
	return map[string]interface{}{"universe": c.Universe, "honest": c.Honest, "byz": c.Byz, "expected": c.Expected, "topics": c.Topics, "lies": c.Lies, "probe_ms": c.ProbeMs, "info": o.Info}
}

func TestC07Honest(t *testing.T) {
	theT = t
	vh.Prop[c07Case]{ID: "C07", Test: "TestC07Honest", Gen: genC07(false), Run: runC07, Sample: c07Sample}.Main(t)
}

func TestC07Byz(t *testing.T) {
	theT = t
	vh.Prop[c07Case]{ID: "C07", Test: "TestC07Byz", Gen: genC07(true), Run: runC07, Sample: c07Sample}.Main(t)
}
