package checks

import (
	"bytes"
	"context"
	"fmt"
	"sync"
	"testing"

	"github.com/IBM/TSS/mpc/ps"
	"pgregory.net/rapid"

	"verif/core/fix"
	"verif/core/sim"
	"verif/vh"
)

// C08: threshold blind PS signatures are complete for every message vector,
// (n,t) and signer subset (DESIGN.md §3 C08). Backend-level DKG under a
// generated delivery schedule, then the whole blind-sign-unblind-prove-verify
// chain for every subset of size >= t in several orders.

type c08Case struct {
	L     int
	Msgs  [][]byte
	N, T  int
	Sched sim.Schedule
	Order int // how subsets are ordered when handed to the prover: 0 ascending, 1 descending, 2 rotated
}

func genC08(maxN int) func(t *rapid.T) c08Case {
	return func(t *rapid.T) c08Case {
		var c c08Case
		c.L = rapid.IntRange(1, 4).Draw(t, "L")
		for i := 0; i < c.L; i++ {
			k := rapid.IntRange(0, 5).Draw(t, "mkind")
			switch {
			case k == 0:
				c.Msgs = append(c.Msgs, []byte{})
			case k == 1 && i > 0:
				c.Msgs = append(c.Msgs, append([]byte(nil), c.Msgs[i-1]...)) // equal entries
			case k == 2:
				c.Msgs = append(c.Msgs, bytes.Repeat([]byte{byte(i + 1)}, 1024))
			default:
				c.Msgs = append(c.Msgs, rapid.SliceOfN(rapid.Byte(), 0, 48).Draw(t, "msg"))
			}
		}
		c.N = rapid.IntRange(2, maxN).Draw(t, "n")
		c.T = rapid.IntRange(2, c.N).Draw(t, "t")
		c.Sched = genSchedule(t, 200)
		c.Order = rapid.IntRange(0, 2).Draw(t, "order")
		return c
	}
}

func runC08(c c08Case) *vh.Outcome {
	o := &vh.Outcome{}
	parties := u16s(seq(1, c.N))
	o.Key = fmt.Sprintf("%d/%x/%d/%d/%d/%v", c.L, c.Msgs, c.N, c.T, c.Order, c.Sched)
	o.Classes = append(o.Classes, fmt.Sprintf("L=%d", c.L), fmt.Sprintf("n=%d", c.N), fmt.Sprintf("order=%d", c.Order))
	f, err := fix.NewPS(theT, parties, c.T, c.L, &c.Sched)
	if err != nil {
		o.Fail = vh.Failf("C08/keygen", "fault-free PS DKG (n=%d t=%d L=%d) under a generated schedule did not complete: %v", c.N, c.T, c.L, err)
		return o
	}
	// identical public material on all parties; stored data survives the round trip
	for i := range parties {
		s, err := f.Signer(i)
		if err != nil {
			o.Fail = vh.Failf("C08/stored-data", "party %d cannot reload its DKG output: %v", parties[i], err)
			return o
		}
		tpk, err := s.ThresholdPK()
		if err != nil || !bytes.Equal(tpk, f.TPK) {
			o.Fail = vh.Failf("C08/public-material-differs", "party %d reports different public material than party %d after DKG (n=%d t=%d L=%d): err=%v", parties[i], parties[0], c.N, c.T, c.L, err)
			return o
		}
	}
	var fail *vh.Failure
	func() {
		defer func() {
			if r := recover(); r != nil {
				fail = vh.Failf("C08/panic", "panic in the blind-sign-unblind-prove-verify chain (n=%d t=%d L=%d): %v\n%s", c.N, c.T, c.L, r, shortStack())
			}
		}()
		chain, err := f.NewChain(c.Msgs)
		if err != nil {
			fail = vh.Failf("C08/sign-unblind", "n=%d t=%d L=%d msgs=%x: %v", c.N, c.T, c.L, c.Msgs, err)
			return
		}
		// all parties sign the same request AT THE SAME TIME (they are separate objects; in one process they share only what
		// the library keeps globally) - every partial signature must still unblind under its signer's key
		{
			pr, _ := f.Prover()
			sigs := make([][]byte, c.N)
			errs := make([]error, c.N)
			for round := 0; round < 2 && fail == nil; round++ {
				var wg sync.WaitGroup
				for i := range f.Parties {
					i := i
					s, serr := f.Signer(i)
					if serr != nil {
						continue
					}
					wg.Add(1)
					go func() {
						defer wg.Done()
						defer func() {
							if r := recover(); r != nil {
								errs[i] = fmt.Errorf("panic: %v", r)
							}
						}()
						sigs[i], errs[i] = s.Sign(context.Background(), chain.Request)
					}()
				}
				wg.Wait()
				for i := range f.Parties {
					if errs[i] != nil {
						fail = vh.Failf("C08/concurrent-signers", "party %d refused a valid request while the other parties were signing it at the same time: %v (n=%d t=%d L=%d)", f.Parties[i], errs[i], c.N, c.T, c.L)
						return
					}
					if _, uerr := pr.UnBlind(f.Parties[i], sigs[i], chain.Secret); uerr != nil {
						fail = vh.Failf("C08/concurrent-signers", "the partial signature that party %d made while the other parties were signing at the same time does not unblind under its key: %v (n=%d t=%d L=%d)", f.Parties[i], uerr, c.N, c.T, c.L)
						return
					}
				}
			}
		}
		v, err := f.Verifier()
		if err != nil {
			fail = vh.Failf("C08/verifier-init", "%v", err)
			return
		}
		nsub := 0
		forSubsets(c.N, c.T, func(sub []int) bool {
			nsub++
			idx := make([]int, len(sub))
			for i, p := range sub {
				idx[i] = p - 1
			}
			switch c.Order {
			case 1:
				for i, j := 0, len(idx)-1; i < j; i, j = i+1, j-1 {
					idx[i], idx[j] = idx[j], idx[i]
				}
			case 2:
				idx = append(idx[1:], idx[0])
			}
			proof, err := f.Proof(chain, idx)
			if err != nil {
				fail = vh.Failf("C08/prove", "%v", err)
				return false
			}
			if err := v.Verify(proof); err != nil {
				who := make([]uint16, len(idx))
				for i, x := range idx {
					who[i] = parties[x]
				}
				fail = vh.Failf("C08/proof-rejected", "proof of knowledge from the witnesses of signers %v (n=%d t=%d L=%d) does not verify under the threshold key: %v", who, c.N, c.T, c.L, err)
				return false
			}
			return true
		})
		o.Info = map[string]interface{}{"subsets": nsub}
	}()
	o.Fail = fail
	o.NonTrivial = true // every case has a generated message vector and covers all subsets; the fixed 3-party fixture of the unit test is never drawn
	return o
}

var _ = ps.Setup

func TestC08(t *testing.T) {
	theT = t
	maxN := 4
	if vh.Thorough() {
		maxN = 5
	}
	vh.Prop[c08Case]{ID: "C08", Test: "TestC08", Gen: genC08(maxN), Run: runC08,
		Sample: func(c c08Case, o *vh.Outcome) interface{} {
			lens := []int{}
			for _, m := range c.Msgs {
				lens = append(lens, len(m))
			}
			return map[string]interface{}{"L": c.L, "msg_lengths": lens, "n": c.N, "t": c.T, "order": c.Order, "schedule_len": len(c.Sched.Choices), "info": o.Info}
		}}.Main(t)
}
