package checks

import (
	"bytes"
	"context"
	"crypto/rand"
	"encoding/asn1"
	"fmt"
	"sort"
	"sync"
	"testing"

	"github.com/IBM/TSS/mpc/bls"
	"github.com/IBM/TSS/mpc/ps"
	math "github.com/IBM/mathlib"

	"verif/core/fix"
	"verif/core/sim"
	"verif/vh"
)

// C09: verification rejects anything altered; verifying is side-effect free
// (DESIGN.md §3 C09). Metamorphic: from a valid object, every listed single
// perturbation must turn acceptance into rejection; controls must be accepted,
// twice.

type c09Case struct {
	Kind    string // bls | psproof | psreq | psobj
	N, T, L int
	Variant string
	Base    int // which fresh base of this shape (bases are regenerated; a replay uses a new one of the same shape)
}

type c09Variant struct {
	name   string
	accept bool         // expected verdict
	run    func() error // returns the verdict of the library (nil = accepted)
	parsed func() bool  // whether the perturbed object still parses (nil = yes)
}

// --- group element perturbations ------------------------------------------------

const (
	pPlusGen = iota
	pDouble
	pRandom
	pIdentity
	pDonorSameKey
	pDonorOtherKey
	nPerts
)

var pertNames = []string{"plus-generator", "times-two", "random-element", "identity", "donor-same-key", "donor-other-key"}

func pertG1(b []byte, k int, d1, d2 []byte) []byte {
	p, err := curve.NewG1FromBytes(b)
	if err != nil {
		return nil
	}
	switch k {
	case pPlusGen:
		p.Add(curve.GenG1)
	case pDouble:
		p = p.Mul(curve.NewZrFromInt(2))
	case pRandom:
		p = curve.GenG1.Mul(curve.NewRandomZr(rand.Reader))
	case pIdentity:
		p = curve.GenG1.Copy()
		p.Sub(curve.GenG1)
	case pDonorSameKey:
		return d1
	case pDonorOtherKey:
		return d2
	}
	return p.Bytes()
}

func pertG2(b []byte, k int, d1, d2 []byte) []byte {
	p, err := curve.NewG2FromBytes(b)
	if err != nil {
		return nil
	}
	switch k {
	case pPlusGen:
		p.Add(curve.GenG2)
	case pDouble:
		p = p.Mul(curve.NewZrFromInt(2))
	case pRandom:
		p = curve.GenG2.Mul(curve.NewRandomZr(rand.Reader))
	case pIdentity:
		p = curve.GenG2.Copy()
		p.Sub(curve.GenG2)
	case pDonorSameKey:
		return d1
	case pDonorOtherKey:
		return d2
	}
	return p.Bytes()
}

func pertZr(b []byte, k int, d1, d2 []byte) []byte {
	z := curve.NewZrFromBytes(b)
	switch k {
	case pPlusGen:
		z = z.Plus(curve.NewZrFromInt(1))
	case pDouble:
		z = z.Plus(z)
	case pRandom:
		z = curve.NewRandomZr(rand.Reader)
	case pIdentity:
		z = curve.NewZrFromInt(0)
	case pDonorSameKey:
		return d1
	case pDonorOtherKey:
		return d2
	}
	z.Mod(curve.GroupOrder)
	return z.Bytes()
}

// --- BLS ----------------------------------------------------------------------------

func blsVariants(n, t int) ([]c09Variant, error) {
	parties := u16s(seq(1, n))
	f, err := fix.NewBLS(theT, parties, t, nil)
	if err != nil {
		return nil, err
	}
	other, err := fix.NewBLS(theT, parties, t, nil)
	if err != nil {
		return nil, err
	}
	digest := make([]byte, 32)
	_, _ = rand.Read(digest)
	digest2 := append([]byte(nil), digest...)
	digest2[7] ^= 0x10
	partial := make([][]byte, n)
	partial2 := make([][]byte, n)
	for i := 0; i < n; i++ {
		partial[i] = f.Partial(i, digest)
		partial2[i] = f.Partial(i, digest2)
	}
	S := seq(1, t)
	agg := func(v *bls.Verifier, idx []int, sigs [][]byte) ([]byte, error) {
		var ids []uint16
		for _, i := range idx {
			ids = append(ids, uint16(i))
		}
		return v.AggregateSignatures(sigs, ids)
	}
	v := f.Verifier()
	baseSigs := func() [][]byte {
		var s [][]byte
		for _, i := range S {
			s = append(s, partial[i-1])
		}
		return s
	}
	sigma, err := agg(v, S, baseSigs())
	if err != nil {
		return nil, err
	}
	verdictOfSigs := func(idx []int, sigs [][]byte, dg []byte) func() error {
		return func() error {
			a, err := agg(f.Verifier(), idx, sigs)
			if err != nil {
				return err
			}
			return f.Verifier().Verify(dg, a)
		}
	}
	var vs []c09Variant
	add := func(name string, accept bool, run func() error) {
		vs = append(vs, c09Variant{name: name, accept: accept, run: run})
	}
	add("control", true, func() error { return v.Verify(digest, sigma) })
	add("control-same-verifier-twice", true, func() error {
		if err := v.Verify(digest, sigma); err != nil {
			return err
		}
		return v.Verify(digest, sigma)
	})
	{
		badSigma := pertG1(sigma, pPlusGen, nil, nil)
		if badSigma == nil {
			badSigma = partial[0]
		}
		concurrentVariants(add, func() error { return v.Verify(digest, sigma) }, []func() error{
			func() error { return v.Verify(digest2, sigma) },
			func() error { return v.Verify(digest, badSigma) },
			func() error { return v.Verify(digest, partial[0]) },
		})
	}
	add("control-reinit-same-parameters", true, func() error {
		w := f.Verifier()
		if err := w.Init(f.PP); err != nil {
			return err
		}
		return w.Verify(digest, sigma)
	})
	if t >= 2 {
		// the same genuine assignment handed over in other orders must still verify ...
		perm := func(name string, order []int) {
			add("control-signers-"+name, true, func() error {
				var sg [][]byte
				var idx []int
				for _, k := range order {
					sg = append(sg, partial[S[k]-1])
					idx = append(idx, S[k])
				}
				return verdictOfSigs(idx, sg, digest)()
			})
			// ... and a wrong assignment in that order must still be rejected
			add("assignment-shifted-in-order-"+name, false, func() error {
				var sg [][]byte
				var idx []int
				for i, k := range order {
					sg = append(sg, partial[S[order[(i+1)%len(order)]]-1])
					idx = append(idx, S[k])
				}
				return verdictOfSigs(idx, sg, digest)()
			})
		}
		desc := make([]int, t)
		rot := make([]int, t)
		for i := 0; i < t; i++ {
			desc[i] = t - 1 - i
			rot[i] = (i + 1) % t
		}
		perm("descending", desc)
		perm("rotated", rot)
	}
	add("reject-twice-same-verdict", false, func() error {
		e1 := v.Verify(digest2, sigma)
		e2 := v.Verify(digest2, sigma)
		if (e1 == nil) != (e2 == nil) {
			return nil // inconsistent verdicts count as an acceptance of something altered
		}
		return e1
	})
	// message
	add("digest-bit-flipped", false, func() error { return v.Verify(digest2, sigma) })
	add("digest-truncated", false, func() error { return v.Verify(digest[:31], sigma) })
	add("digest-extended", false, func() error { return v.Verify(append(append([]byte(nil), digest...), 0), sigma) })
	add("digest-empty", false, func() error { return v.Verify(nil, sigma) })
	// a share
	for k, i := range S {
		k, i := k, i
		repl := func(name string, b []byte) {
			add(fmt.Sprintf("partial-of-%d-%s", i, name), false, func() error {
				s := baseSigs()
				s[k] = b
				return verdictOfSigs(S, s, digest)()
			})
		}
		repl("on-other-digest", partial2[i-1])
		repl("plus-generator", pertG1(partial[i-1], pPlusGen, nil, nil))
		repl("random-point", pertG1(partial[i-1], pRandom, nil, nil))
		repl("identity", pertG1(partial[i-1], pIdentity, nil, nil))
		repl("from-other-dkg", other.Partial(i-1, digest))
		for j := 1; j <= n; j++ {
			if j != i {
				repl(fmt.Sprintf("replaced-by-partial-of-%d", j), partial[j-1])
			}
		}
	}
	// signer-to-share assignment
	for a := 0; a < len(S); a++ {
		for b := a + 1; b < len(S); b++ {
			a, b := a, b
			add(fmt.Sprintf("partials-of-%d-and-%d-swapped", S[a], S[b]), false, func() error {
				s := baseSigs()
				s[a], s[b] = s[b], s[a]
				return verdictOfSigs(S, s, digest)()
			})
		}
	}
	if n > t {
		for k := range S {
			k := k
			add(fmt.Sprintf("partial-of-%d-filed-under-%d", S[k], n), false, func() error {
				idx := append([]int(nil), S...)
				idx[k] = n
				return verdictOfSigs(idx, baseSigs(), digest)()
			})
		}
	}
	// the key
	add("threshold-key-of-another-dkg", false, func() error { return other.Verifier().Verify(digest, sigma) })
	var params bls.PublicParams
	_, _ = asn1.Unmarshal(f.PP, &params)
	for i := 0; i < n; i++ {
		i := i
		add(fmt.Sprintf("individual-key-of-%d-as-threshold-key", i+1), false, func() error {
			pp, _ := asn1.Marshal(bls.PublicParams{Parties: params.Parties, PublicKeys: params.PublicKeys, ThresholdPK: params.PublicKeys[i]})
			var w bls.Verifier
			if err := w.Init(pp); err != nil {
				return err
			}
			return w.Verify(digest, sigma)
		})
	}
	// fewer than t shares
	for mask := 1; mask < 1<<n; mask++ {
		var sub []int
		for i := 0; i < n; i++ {
			if mask&(1<<i) != 0 {
				sub = append(sub, i+1)
			}
		}
		if len(sub) >= t {
			continue
		}
		sub2 := sub
		if len(sub) == 1 {
			// aggregating a single signature is answered by an explicit panic of the library (local misuse,
			// DESIGN 2.10 rule 2); the single partial is presented as the threshold signature instead
			add(fmt.Sprintf("partial-of-%d-presented-as-threshold-signature", sub[0]), false, func() error { return v.Verify(digest, partial[sub2[0]-1]) })
			continue
		}
		add(fmt.Sprintf("undersized-subset-%v", sub2), false, func() error {
			var s [][]byte
			for _, i := range sub2 {
				s = append(s, partial[i-1])
			}
			return verdictOfSigs(sub2, s, digest)()
		})
	}
	// the signature itself
	add("signature-plus-generator", false, func() error { return v.Verify(digest, pertG1(sigma, pPlusGen, nil, nil)) })
	add("signature-identity", false, func() error { return v.Verify(digest, pertG1(sigma, pIdentity, nil, nil)) })
	add("signature-doubled", false, func() error { return v.Verify(digest, pertG1(sigma, pDouble, nil, nil)) })
	add("signature-of-other-dkg", false, func() error {
		var s [][]byte
		for _, i := range S {
			s = append(s, other.Partial(i-1, digest))
		}
		o, _ := agg(other.Verifier(), S, s)
		return v.Verify(digest, o)
	})
	return vs, nil
}

// --- PS -------------------------------------------------------------------------------

type psBase struct {
	f, other      *fix.PS
	chain         *fix.Chain
	proof, proof2 []byte // two proofs under the same key
	proofOther    []byte // proof under another key
	req, req2     []byte
	reqOther      []byte
}

func newPSBase(n, t, l int) (*psBase, error) {
	parties := u16s(seq(1, n))
	b := &psBase{}
	var err error
	if b.f, err = fix.NewPS(theT, parties, t, l, nil); err != nil {
		return nil, err
	}
	if b.other, err = fix.NewPS(theT, parties, t, l, nil); err != nil {
		return nil, err
	}
	msgs := make([][]byte, l)
	for i := range msgs {
		msgs[i] = make([]byte, 8)
		_, _ = rand.Read(msgs[i])
	}
	if b.chain, err = b.f.NewChain(msgs); err != nil {
		return nil, err
	}
	idx := seq(0, t-1)
	if b.proof, err = b.f.Proof(b.chain, idx); err != nil {
		return nil, err
	}
	if b.proof2, err = b.f.Proof(b.chain, idx); err != nil {
		return nil, err
	}
	oc, err := b.other.NewChain(msgs)
	if err != nil {
		return nil, err
	}
	if b.proofOther, err = b.other.Proof(oc, idx); err != nil {
		return nil, err
	}
	b.req = b.chain.Request
	c2, err := b.f.NewChain(msgs)
	if err != nil {
		return nil, err
	}
	b.req2 = c2.Request
	b.reqOther = oc.Request
	return b, nil
}

type rawProofParts struct {
	outer ps.RawSigPok
	inner ps.RawPoKofSignaturePoCorrectForm
}

func splitProof(p []byte) (*rawProofParts, error) {
	r := &rawProofParts{}
	if _, err := asn1.Unmarshal(p, &r.outer); err != nil {
		return nil, err
	}
	if len(r.outer.Data) != 5 {
		return nil, fmt.Errorf("proof has %d components", len(r.outer.Data))
	}
	if _, err := asn1.Unmarshal(r.outer.Data[0], &r.inner); err != nil {
		return nil, err
	}
	return r, nil
}

func (r *rawProofParts) join() []byte {
	in, _ := asn1.Marshal(r.inner)
	out := ps.RawSigPok{Data: append([][]byte{in}, r.outer.Data[1:]...)}
	b, _ := asn1.Marshal(out)
	return b
}

func psProofVariants(n, t, l int) ([]c09Variant, error) {
	b, err := newPSBase(n, t, l)
	if err != nil {
		return nil, err
	}
	v, err := b.f.Verifier()
	if err != nil {
		return nil, err
	}
	var vs []c09Variant
	add := func(name string, accept bool, run func() error) {
		vs = append(vs, c09Variant{name: name, accept: accept, run: run})
	}
	add("control", true, func() error { return v.Verify(b.proof) })
	add("control-twice", true, func() error {
		if err := v.Verify(b.proof); err != nil {
			return err
		}
		return v.Verify(b.proof)
	})
	add("control-second-proof", true, func() error { return v.Verify(b.proof2) })
	d1, err := splitProof(b.proof2)
	if err != nil {
		return nil, err
	}
	d2, err := splitProof(b.proofOther)
	if err != nil {
		return nil, err
	}
	type comp struct {
		name string
		kind int // 0 zr, 1 g1, 2 g2
		get  func(r *rawProofParts) []byte
		set  func(r *rawProofParts, v []byte)
	}
	var comps []comp
	base0, _ := splitProof(b.proof)
	for i := range base0.inner.X {
		i := i
		comps = append(comps, comp{fmt.Sprintf("response-x%d", i), 0, func(r *rawProofParts) []byte { return r.inner.X[i] }, func(r *rawProofParts, v []byte) { r.inner.X[i] = v }})
	}
	comps = append(comps,
		comp{"response-y", 0, func(r *rawProofParts) []byte { return r.inner.Y }, func(r *rawProofParts, v []byte) { r.inner.Y = v }},
		comp{"commitment-Gamma", 2, func(r *rawProofParts) []byte { return r.inner.Gamma }, func(r *rawProofParts, v []byte) { r.inner.Gamma = v }},
		comp{"commitment-Phi", 1, func(r *rawProofParts) []byte { return r.inner.Phi }, func(r *rawProofParts, v []byte) { r.inner.Phi = v }},
		comp{"h-epsilon", 1, func(r *rawProofParts) []byte { return r.outer.Data[1] }, func(r *rawProofParts, v []byte) { r.outer.Data[1] = v }},
		comp{"hprime-epsilon", 1, func(r *rawProofParts) []byte { return r.outer.Data[2] }, func(r *rawProofParts, v []byte) { r.outer.Data[2] = v }},
		comp{"nu", 1, func(r *rawProofParts) []byte { return r.outer.Data[3] }, func(r *rawProofParts, v []byte) { r.outer.Data[3] = v }},
		comp{"kappa", 2, func(r *rawProofParts) []byte { return r.outer.Data[4] }, func(r *rawProofParts, v []byte) { r.outer.Data[4] = v }},
	)
	for _, c := range comps {
		for k := 0; k < nPerts; k++ {
			c, k := c, k
			vs = append(vs, c09Variant{name: fmt.Sprintf("proof/%s/%s", c.name, pertNames[k]), accept: false, run: func() error {
				r, _ := splitProof(b.proof)
				orig := c.get(r)
				var nv []byte
				switch c.kind {
				case 0:
					nv = pertZr(orig, k, c.get(d1), c.get(d2))
				case 1:
					nv = pertG1(orig, k, c.get(d1), c.get(d2))
				default:
					nv = pertG2(orig, k, c.get(d1), c.get(d2))
				}
				if nv == nil || bytes.Equal(nv, orig) {
					return fmt.Errorf("perturbation had no effect")
				}
				c.set(r, nv)
				return v.Verify(r.join())
			}})
		}
	}
	// fewer than t witnesses, wrong filing, other key
	if t >= 3 { // a single witness makes the library's Lagrange helper panic explicitly (local misuse)
		add("proof-from-t-minus-1-witnesses", false, func() error {
			p, err := b.f.Proof(b.chain, seq(0, t-2))
			if err != nil {
				return err
			}
			return v.Verify(p)
		})
	}
	add("witnesses-filed-under-rotated-signers", false, func() error {
		pr, _ := b.f.Prover()
		var signers []uint16
		var ws []ps.SignatureWitness
		for i := 0; i < t; i++ {
			signers = append(signers, b.f.Parties[(i+1)%n])
			ws = append(ws, b.chain.Witnesses[i])
		}
		pok := pr.ProveKnowledgeOfSignature(b.chain.Secret, signers, ws)
		return v.Verify(pok.Bytes())
	})
	add("proof-verified-under-another-threshold-key", false, func() error {
		ov, _ := b.other.Verifier()
		return ov.Verify(b.proof)
	})
	add("proof-of-another-key-verified-here", false, func() error { return v.Verify(b.proofOther) })
	{
		alter := func(c comp, k int) []byte {
			r, _ := splitProof(b.proof)
			orig := c.get(r)
			var nv []byte
			switch c.kind {
			case 0:
				nv = pertZr(orig, k, c.get(d1), c.get(d2))
			case 1:
				nv = pertG1(orig, k, c.get(d1), c.get(d2))
			default:
				nv = pertG2(orig, k, c.get(d1), c.get(d2))
			}
			if nv == nil {
				return b.proofOther
			}
			c.set(r, nv)
			return r.join()
		}
		a1, a2 := alter(comps[0], pPlusGen), alter(comps[len(comps)-3], pPlusGen)
		concurrentVariants(add, func() error { return v.Verify(b.proof) }, []func() error{
			func() error { return v.Verify(a1) },
			func() error { return v.Verify(a2) },
			func() error { return v.Verify(b.proofOther) },
		})
	}
	return vs, nil
}

type rawReqParts struct {
	outer ps.RawBlindSignature
	inner ps.RawBlindCorrectProof
}

func splitReq(p []byte) (*rawReqParts, error) {
	r := &rawReqParts{}
	if _, err := asn1.Unmarshal(p, &r.outer); err != nil {
		return nil, err
	}
	if _, err := asn1.Unmarshal(r.outer.CorrectFormProof, &r.inner); err != nil {
		return nil, err
	}
	return r, nil
}

func (r *rawReqParts) join() []byte {
	in, _ := asn1.Marshal(r.inner)
	o := r.outer
	o.CorrectFormProof = in
	b, _ := asn1.Marshal(o)
	return b
}

func psReqVariants(n, t, l int) ([]c09Variant, error) {
	b, err := newPSBase(n, t, l)
	if err != nil {
		return nil, err
	}
	signer := func() *ps.TPS { s, _ := b.f.Signer(0); return s }
	sign := func(req []byte) error { _, err := signer().Sign(context.Background(), req); return err }
	var vs []c09Variant
	add := func(name string, accept bool, run func() error) {
		vs = append(vs, c09Variant{name: name, accept: accept, run: run})
	}
	add("control", true, func() error { return sign(b.req) })
	add("control-same-signer-twice", true, func() error {
		s := signer()
		if _, err := s.Sign(context.Background(), b.req); err != nil {
			return err
		}
		_, err := s.Sign(context.Background(), b.req)
		return err
	})
	add("control-every-signer", true, func() error {
		for i := range b.f.Parties {
			s, _ := b.f.Signer(i)
			if _, err := s.Sign(context.Background(), b.req); err != nil {
				return fmt.Errorf("party %d: %w", b.f.Parties[i], err)
			}
		}
		return nil
	})
	d1, err := splitReq(b.req2)
	if err != nil {
		return nil, err
	}
	d2, err := splitReq(b.reqOther)
	if err != nil {
		return nil, err
	}
	type comp struct {
		name string
		kind int
		get  func(r *rawReqParts) []byte
		set  func(r *rawReqParts, v []byte)
	}
	comps := []comp{
		{"commitment-cm", 1, func(r *rawReqParts) []byte { return r.outer.CM }, func(r *rawReqParts, v []byte) { r.outer.CM = v }},
		{"ephemeral-key-u", 1, func(r *rawReqParts) []byte { return r.outer.U }, func(r *rawReqParts, v []byte) { r.outer.U = v }},
		{"proof-s", 1, func(r *rawReqParts) []byte { return r.inner.S }, func(r *rawReqParts, v []byte) { r.inner.S = v }},
		{"proof-z", 0, func(r *rawReqParts) []byte { return r.inner.Z }, func(r *rawReqParts, v []byte) { r.inner.Z = v }},
	}
	base0, _ := splitReq(b.req)
	for i := range base0.outer.A {
		i := i
		comps = append(comps,
			comp{fmt.Sprintf("ciphertext-a%d", i), 1, func(r *rawReqParts) []byte { return r.outer.A[i] }, func(r *rawReqParts, v []byte) { r.outer.A[i] = v }},
			comp{fmt.Sprintf("ciphertext-b%d", i), 1, func(r *rawReqParts) []byte { return r.outer.B[i] }, func(r *rawReqParts, v []byte) { r.outer.B[i] = v }},
			comp{fmt.Sprintf("proof-x%d", i), 0, func(r *rawReqParts) []byte { return r.inner.X[i] }, func(r *rawReqParts, v []byte) { r.inner.X[i] = v }},
			comp{fmt.Sprintf("proof-y%d", i), 0, func(r *rawReqParts) []byte { return r.inner.Y[i] }, func(r *rawReqParts, v []byte) { r.inner.Y[i] = v }},
			comp{fmt.Sprintf("proof-d%d", i), 1, func(r *rawReqParts) []byte { return r.inner.D[i] }, func(r *rawReqParts, v []byte) { r.inner.D[i] = v }},
			comp{fmt.Sprintf("proof-f%d", i), 1, func(r *rawReqParts) []byte { return r.inner.F[i] }, func(r *rawReqParts, v []byte) { r.inner.F[i] = v }},
		)
	}
	for _, c := range comps {
		for k := 0; k < nPerts; k++ {
			c, k := c, k
			vs = append(vs, c09Variant{name: fmt.Sprintf("request/%s/%s", c.name, pertNames[k]), accept: false, run: func() error {
				r, _ := splitReq(b.req)
				orig := c.get(r)
				var nv []byte
				if c.kind == 0 {
					nv = pertZr(orig, k, c.get(d1), c.get(d2))
				} else {
					nv = pertG1(orig, k, c.get(d1), c.get(d2))
				}
				if nv == nil || bytes.Equal(nv, orig) {
					return fmt.Errorf("perturbation had no effect")
				}
				c.set(r, nv)
				return sign(r.join())
			}})
		}
	}
	return vs, nil
}

// psObjVariants: object-level idempotence with exported single-signer functions.
func psObjVariants(l int) ([]c09Variant, error) {
	pp := ps.Setup(curve, l)
	sk, pk := ps.LocalKeyGen(pp)
	m := make([]*math.Zr, l)
	for i := range m {
		m[i] = curve.NewRandomZr(rand.Reader)
	}
	var vs []c09Variant
	vs = append(vs, c09Variant{name: "sign-same-request-object-twice", accept: true, run: func() error {
		req, _ := ps.Blind(&pp, curve, m)
		if _, err := ps.SignBlindSignature(&pp, req, sk); err != nil {
			return fmt.Errorf("first signing: %w", err)
		}
		if _, err := ps.SignBlindSignature(&pp, req, sk); err != nil {
			return fmt.Errorf("second signing of the same request object: %w", err)
		}
		return nil
	}})
	// Forgery without a signature: the exported proof builder run on h = h' = identity satisfies every
	// equation trivially; only the explicit h^epsilon != 0 test stands against it. The control runs the
	// same builder on a genuine signature (computed here from the serialised secret key) and must verify.
	var sx ps.XYs
	if _, err := asn1.Unmarshal(sk.Bytes(), &sx); err != nil {
		return nil, err
	}
	msg := make([]*math.Zr, l+1)
	for i := range msg {
		msg[i] = curve.NewRandomZr(rand.Reader)
	}
	exp := curve.NewZrFromBytes(sx.X)
	for i := range msg {
		exp = exp.Plus(curve.NewZrFromBytes(sx.Ys[i]).Mul(msg[i]))
	}
	exp.Mod(curve.GroupOrder)
	tpk, _ := asn1.Marshal(ps.ThresholdPK{TPK: pk.Bytes()})
	verify := func(pok ps.SigPoK) error {
		var v ps.Verifier
		if err := v.Init(curve, l, tpk); err != nil {
			return err
		}
		return v.Verify(pok.Bytes())
	}
	vs = append(vs, c09Variant{name: "proof-builder-on-genuine-signature", accept: true, run: func() error {
		h := curve.GenG1.Mul(curve.NewRandomZr(rand.Reader))
		return verify(ps.PoKofSig(&pp, pk, h, h.Mul(exp), msg))
	}})
	vs = append(vs, c09Variant{name: "verify-same-proof-object-twice", accept: true, run: func() error {
		h := curve.GenG1.Mul(curve.NewRandomZr(rand.Reader))
		pok := ps.PoKofSig(&pp, pk, h, h.Mul(exp), msg)
		before := pok.Bytes()
		if err := pok.Verify(&pp, pk); err != nil {
			return fmt.Errorf("first verification: %w", err)
		}
		if err := pok.Verify(&pp, pk); err != nil {
			return fmt.Errorf("second verification of the same proof object: %w", err)
		}
		if !bytes.Equal(before, pok.Bytes()) {
			return fmt.Errorf("verifying changed the proof object (its serialisation differs afterwards)")
		}
		return verify(pok)
	}})
	vs = append(vs, c09Variant{name: "altered-proof-object-verified-twice", accept: false, run: func() error {
		h := curve.GenG1.Mul(curve.NewRandomZr(rand.Reader))
		pok := ps.PoKofSig(&pp, pk, h, h.Mul(exp), msg)
		var raw ps.RawSigPok
		if _, err := asn1.Unmarshal(pok.Bytes(), &raw); err != nil {
			return fmt.Errorf("perturbation had no effect")
		}
		// h'^eps replaced by h'^eps - nu: rejected; a verification that adds nu onto the object would make it pass next time
		hp, err1 := curve.NewG1FromBytes(raw.Data[2])
		nu, err2 := curve.NewG1FromBytes(raw.Data[3])
		if err1 != nil || err2 != nil {
			return fmt.Errorf("perturbation had no effect")
		}
		hp.Sub(nu)
		raw.Data[2] = hp.Bytes()
		alt, _ := asn1.Marshal(raw)
		var v ps.Verifier
		if err := v.Init(curve, l, tpk); err != nil {
			return err
		}
		e1 := v.Verify(alt)
		e2 := v.Verify(alt)
		if e1 == nil || e2 == nil {
			return nil
		}
		return e1
	}})
	vs = append(vs, c09Variant{name: "proof-builder-on-identity-signature-without-any-share", accept: false, run: func() error {
		id := curve.GenG1.Copy()
		id.Sub(curve.GenG1)
		return verify(ps.PoKofSig(&pp, pk, id, id.Copy(), msg))
	}})
	vs = append(vs, c09Variant{name: "proof-builder-on-unrelated-pair", accept: false, run: func() error {
		h := curve.GenG1.Mul(curve.NewRandomZr(rand.Reader))
		return verify(ps.PoKofSig(&pp, pk, h, curve.GenG1.Mul(curve.NewRandomZr(rand.Reader)), msg))
	}})
	return vs, nil
}

// --- runner -------------------------------------------------------------------------

var c09Tables = map[string][]c09Variant{}

func c09Table(c c09Case) ([]c09Variant, error) {
	key := fmt.Sprintf("%s/%d/%d/%d/%d", c.Kind, c.N, c.T, c.L, c.Base)
	if t, ok := c09Tables[key]; ok {
		return t, nil
	}
	var t []c09Variant
	var err error
	switch c.Kind {
	case "bls":
		t, err = blsVariants(c.N, c.T)
	case "psproof":
		t, err = psProofVariants(c.N, c.T, c.L)
	case "psreq":
		t, err = psReqVariants(c.N, c.T, c.L)
	case "psobj":
		t, err = psObjVariants(c.L)
	}
	if err != nil {
		return nil, err
	}
	c09Tables = map[string][]c09Variant{key: t} // keep only the current base
	return t, nil
}

func runC09(c c09Case) *vh.Outcome {
	o := &vh.Outcome{}
	table, err := c09Table(c)
	if err != nil {
		o.Fail = vh.Failf("C09/harness/base", "cannot build a valid base object (%s n=%d t=%d L=%d): %v", c.Kind, c.N, c.T, c.L, err)
		return o
	}
	var v *c09Variant
	for i := range table {
		if table[i].name == c.Variant {
			v = &table[i]
		}
	}
	if v == nil {
		o.Discard = "variant-not-in-this-shape"
		return o
	}
	o.Key = fmt.Sprintf("%s/%d/%d/%d/%d/%s", c.Kind, c.N, c.T, c.L, c.Base, c.Variant)
	o.Classes = append(o.Classes, "kind="+c.Kind)
	var verdict error
	var fail *vh.Failure
	func() {
		defer func() {
			if r := recover(); r != nil {
				fail = vh.Failf("C09/panic/"+c.Kind, "variant %s panicked: %v\n%s", c.Variant, r, shortStack())
			}
		}()
		verdict = v.run()
	}()
	if fail != nil {
		o.Fail = fail
		return o
	}
	if verdict != nil && verdict.Error() == "perturbation had no effect" {
		o.Discard = "perturbation-had-no-effect"
		return o
	}
	o.NonTrivial = true
	if v.accept && verdict != nil {
		o.Fail = vh.Failf(fmt.Sprintf("C09/control-rejected/%s/%s", c.Kind, c.Variant), "a valid, unaltered object was rejected (%s n=%d t=%d L=%d, variant %s): %v", c.Kind, c.N, c.T, c.L, c.Variant, verdict)
		return o
	}
	if !v.accept && verdict == nil {
		o.Fail = vh.Failf(fmt.Sprintf("C09/altered-accepted/%s/%s", c.Kind, generalise(c.Variant)), "an altered object was accepted (%s n=%d t=%d L=%d): %s", c.Kind, c.N, c.T, c.L, c.Variant)
		return o
	}
	if v.accept {
		o.Classes = append(o.Classes, "control")
	} else {
		o.Classes = append(o.Classes, "altered-rejected")
	}
	return o
}

// concurrentVariants: one verifier object shared by goroutines that verify a genuine object and altered ones at the
// same time ("verifying is side-effect free"). The genuine verdicts must all be "accepted", the altered ones all
// "rejected", and nothing may panic.
func concurrentVariants(add func(string, bool, func() error), genuine func() error, altered []func() error) {
	run := func() (genuineErr error, alteredAccepted bool, panicked string) {
		var mu sync.Mutex
		var wg sync.WaitGroup
		worker := func(f func() error, isGenuine bool) {
			defer wg.Done()
			defer func() {
				if r := recover(); r != nil {
					mu.Lock()
					panicked = fmt.Sprintf("%v", r)
					mu.Unlock()
				}
			}()
			for i := 0; i < 12; i++ {
				err := f()
				mu.Lock()
				if isGenuine && err != nil && genuineErr == nil {
					genuineErr = err
				}
				if !isGenuine && err == nil {
					alteredAccepted = true
				}
				mu.Unlock()
			}
		}
		for g := 0; g < 2; g++ {
			wg.Add(1)
			go worker(genuine, true)
		}
		for _, a := range altered {
			wg.Add(1)
			go worker(a, false)
		}
		wg.Wait()
		return
	}
	add("concurrent-use/genuine-verdicts", true, func() error {
		g, _, p := run()
		if p != "" {
			return fmt.Errorf("panic while one verifier object was used by several goroutines: %s", p)
		}
		if g != nil {
			return fmt.Errorf("a genuine object was rejected while the same verifier object was verifying other objects concurrently: %w", g)
		}
		return nil
	})
	add("concurrent-use/altered-verdicts", false, func() error {
		_, acc, p := run()
		if acc || p != "" {
			return nil // reported as "altered object accepted"
		}
		return fmt.Errorf("all rejected")
	})
}

// generalise strips indices from a variant name so that signatures are stable.
func generalise(s string) string {
	out := make([]byte, 0, len(s))
	for i := 0; i < len(s); i++ {
		if s[i] >= '0' && s[i] <= '9' {
			if len(out) == 0 || out[len(out)-1] != '#' {
				out = append(out, '#')
			}
			continue
		}
		out = append(out, s[i])
	}
	return string(out)
}

func TestC09(t *testing.T) {
	theT = t
	p := vh.Prop[c09Case]{ID: "C09", Test: "TestC09", Run: runC09}
	if vh.EnvStr("VERIF_REPLAY_IN") != "" {
		p.Main(t)
		return
	}
	st := vh.NewStats("C09", "TestC09")
	defer st.Flush()
	shard, shards := vh.EnvInt("VERIF_SHARD", 0), vh.EnvInt("VERIF_SHARDS", 1)
	type shape struct {
		kind    string
		n, t, l int
	}
	shapes := []shape{{"bls", 3, 2, 0}, {"bls", 4, 3, 0}, {"bls", 3, 3, 0}, {"psproof", 3, 2, 2}, {"psreq", 3, 2, 2}, {"psobj", 0, 0, 2}, {"psproof", 2, 2, 1}, {"psreq", 2, 2, 1}, {"psproof", 4, 3, 1}}
	bases := 4
	if vh.Thorough() {
		bases = 200
		shapes = append(shapes, shape{"bls", 5, 3, 0}, shape{"bls", 5, 2, 0}, shape{"bls", 4, 2, 0}, shape{"psproof", 4, 3, 3}, shape{"psreq", 4, 3, 3}, shape{"psproof", 3, 3, 1}, shape{"psobj", 0, 0, 1}, shape{"psobj", 0, 0, 4})
	}
	seed := vh.EnvInt("VERIF_SEED", 1)
	idx := 0
	complete := true
	p.Enumerate(t, st, func(yield func(c09Case) bool) {
		for _, sh := range shapes {
			for b := 0; b < bases; b++ {
				idx++
				if idx%shards != shard%shards {
					continue
				}
				c := c09Case{Kind: sh.kind, N: sh.n, T: sh.t, L: sh.l, Base: seed*1000 + b}
				table, err := c09Table(c)
				if err != nil {
					t.Errorf("cannot build base %+v: %v", c, err)
					complete = false
					return
				}
				names := make([]string, 0, len(table))
				for _, v := range table {
					names = append(names, v.name)
				}
				sort.Strings(names)
				for _, nme := range names {
					c.Variant = nme
					if !yield(c) {
						complete = false
						return
					}
				}
			}
		}
	})
	st.SetExhaustive(complete)
	st.Note("TestC09: %d shapes x %d fresh bases; per base every component x every perturbation kind (%v) plus the listed multi-component cases", len(shapes), bases, pertNames)
}

var _ = sim.NewNet
