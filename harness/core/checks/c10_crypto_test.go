package checks

import (
	"context"
	"encoding/asn1"
	"fmt"
	math "github.com/IBM/mathlib"
	"sync"
	"testing"

	"github.com/IBM/TSS/mpc/bls"
	"github.com/IBM/TSS/mpc/ps"
	"pgregory.net/rapid"

	"verif/core/asnmut"
	"verif/core/fix"
	"verif/core/sim"
	"verif/vh"
)

// C10 target T6: signing-request and signature/proof verification entry
// points fed with byte-level and structure-level mutations of valid objects.

type cryptoFixtures struct {
	bls     *fix.BLS
	blsSigs [][]byte // partial signatures on digest "d"
	blsAgg  []byte
	ps      *fix.PS
	chain   *fix.Chain
	proof   []byte
}

var (
	cfOnce sync.Once
	cf     *cryptoFixtures
	cfErr  error
)

func getCryptoFixtures(t *testing.T) (*cryptoFixtures, error) {
	cfOnce.Do(func() {
		f := &cryptoFixtures{}
		parties := []uint16{1, 2, 3}
		f.bls, cfErr = fix.NewBLS(t, parties, 2, nil)
		if cfErr != nil {
			return
		}
		for i := range parties {
			f.blsSigs = append(f.blsSigs, f.bls.Partial(i, []byte("digest")))
		}
		f.blsAgg, cfErr = f.bls.Verifier().AggregateSignatures(f.blsSigs[:2], parties[:2])
		if cfErr != nil {
			return
		}
		f.ps, cfErr = fix.NewPS(t, parties, 2, 2, nil)
		if cfErr != nil {
			return
		}
		f.chain, cfErr = f.ps.NewChain([][]byte{[]byte("a"), []byte("b")})
		if cfErr != nil {
			return
		}
		f.proof, cfErr = f.ps.Proof(f.chain, []int{0, 2})
		cf = f
	})
	return cf, cfErr
}

type c10CryptoCase struct {
	Target int
	Struct bool // structural (ASN.1 level) instead of byte level
	Nested bool // structural mutation of the nested proof instead of the outer object
	Mut    mut
	Op     asnmut.Op
	Digest []byte
}

var c10CryptoTargets = []string{
	"bls.Verifier.Init", "bls.Verifier.Verify", "bls.Verifier.AggregateSignatures",
	"ps.TPS.Sign", "ps.Verifier.Init", "ps.Verifier.Verify", "ps.Prover.UnBlind",
	"ps.TPS.Sign/request-for-another-message-length",
}

func genC10Crypto(t *rapid.T) c10CryptoCase {
	return c10CryptoCase{
		Target: rapid.IntRange(0, len(c10CryptoTargets)-1).Draw(t, "target"),
		Struct: rapid.Bool().Draw(t, "struct"),
		Nested: rapid.Bool().Draw(t, "nested"),
		Mut:    genMut(t, "m"),
		Op: asnmut.Op{Field: rapid.IntRange(0, 7).Draw(t, "field"), Kind: rapid.IntRange(0, 8).Draw(t, "kind"), Arg: rapid.IntRange(0, 300).Draw(t, "arg"),
			Donor: rapid.SliceOfN(rapid.Byte(), 0, 70).Draw(t, "donor")},
		Digest: rapid.SliceOfN(rapid.Byte(), 0, 40).Draw(t, "digest"),
	}
}

// guard runs f and turns a panic into a failure.
func guard(sig string, f func() error) (err error, fail *vh.Failure) {
	defer func() {
		if r := recover(); r != nil {
			fail = vh.Failf(sig, "panic: %v\n%s", r, shortStack())
		}
	}()
	return f(), nil
}

func runC10Crypto(c c10CryptoCase) *vh.Outcome {
	o := &vh.Outcome{}
	f, err := getCryptoFixtures(theT)
	if err != nil {
		o.Fail = vh.Failf("C10/harness/fixtures", "cannot build fixtures: %v", err)
		return o
	}
	target := c10CryptoTargets[c.Target%len(c10CryptoTargets)]
	sig := "C10/T6/panic/" + target
	var input []byte
	desc := ""
	parsed := false // the mutated object still passes the outer ASN.1 decoder

	structural := func(raw []byte, outer interface{}, nestedGet func() []byte, nestedSet func([]byte), nested interface{}) []byte {
		if !c.Struct {
			return c.Mut.apply(raw, f.proof)
		}
		if _, err := asn1.Unmarshal(raw, outer); err != nil {
			return raw
		}
		if c.Nested && nested != nil {
			nb, d, err := asnmut.Reencode(nestedGet(), nested, c.Op)
			if err == nil {
				nestedSet(nb)
				desc = "nested " + d
			}
		} else {
			desc = asnmut.Apply(outer, c.Op)
		}
		out, err := asn1.Marshal(derefStruct(outer))
		if err != nil {
			return raw
		}
		return out
	}

	var callErr error
	switch target {
	case "bls.Verifier.Init":
		var pp bls.PublicParams
		input = structural(f.bls.PP, &pp, nil, nil, nil)
		var v bls.Verifier
		callErr, o.Fail = guard(sig, func() error { return v.Init(input) })
		if o.Fail == nil && callErr == nil {
			// a Verifier that accepted the parameters must be usable
			_, o.Fail = guard(sig+"/verify-after-init", func() error { return v.Verify([]byte("digest"), f.blsAgg) })
		}
	case "bls.Verifier.Verify":
		input = c.Mut.apply(f.blsAgg, f.blsSigs[0])
		callErr, o.Fail = guard(sig, func() error { return f.bls.Verifier().Verify(c.Digest, input) })
	case "bls.Verifier.AggregateSignatures":
		input = c.Mut.apply(f.blsSigs[1], f.blsAgg)
		callErr, o.Fail = guard(sig, func() error {
			_, err := f.bls.Verifier().AggregateSignatures([][]byte{f.blsSigs[0], input}, []uint16{1, 2})
			return err
		})
	case "ps.TPS.Sign":
		var rbs ps.RawBlindSignature
		var inner ps.RawBlindCorrectProof
		input = structural(f.chain.Request, &rbs, func() []byte { return rbs.CorrectFormProof }, func(b []byte) { rbs.CorrectFormProof = b }, &inner)
		s, _ := f.ps.Signer(1)
		callErr, o.Fail = guard(sig, func() error { _, err := s.Sign(context.Background(), input); return err })
	case "ps.TPS.Sign/request-for-another-message-length":
		// a request that is consistent in itself but was built (with the library's own client functions) for a message of
		// another length than the signers were set up for: every vector is one or two elements longer or shorter
		n := f.ps.L + []int{-1, 1, 2, -2, 3}[c.Op.Arg%5]
		if n < 1 {
			n = f.ps.L + 1
		}
		pp := ps.Setup(fix.Curve, n)
		ms := make([]*math.Zr, n)
		for i := range ms {
			ms[i] = fix.Curve.HashToZr([]byte{byte(i), byte(c.Op.Arg)})
		}
		bs, _ := ps.Blind(&pp, fix.Curve, ms)
		input = bs.Bytes()
		if c.Struct { // plus a byte-level mutation on top
			input = c.Mut.apply(input, f.proof)
		}
		s, _ := f.ps.Signer(1)
		callErr, o.Fail = guard(sig, func() error { _, err := s.Sign(context.Background(), input); return err })
	case "ps.Verifier.Init":
		var tpk ps.ThresholdPK
		var inner ps.XYs
		input = structural(f.ps.TPK, &tpk, func() []byte { return tpk.TPK }, func(b []byte) { tpk.TPK = b }, &inner)
		var v ps.Verifier
		callErr, o.Fail = guard(sig, func() error { return v.Init(fix.Curve, f.ps.L, input) })
		if o.Fail == nil && callErr == nil {
			_, o.Fail = guard(sig+"/verify-after-init", func() error { return v.Verify(f.proof) })
		}
	case "ps.Verifier.Verify":
		var rsp ps.RawSigPok
		var inner ps.RawPoKofSignaturePoCorrectForm
		input = structural(f.proof, &rsp, func() []byte {
			if len(rsp.Data) > 0 {
				return rsp.Data[0]
			}
			return nil
		}, func(b []byte) {
			if len(rsp.Data) > 0 {
				rsp.Data[0] = b
			}
		}, &inner)
		v, _ := f.ps.Verifier()
		callErr, o.Fail = guard(sig, func() error { return v.Verify(input) })
	case "ps.Prover.UnBlind":
		var rs ps.RawSignature
		input = structural(f.chain.Partials[0], &rs, nil, nil, nil)
		pr, _ := f.ps.Prover()
		callErr, o.Fail = guard(sig, func() error { _, err := pr.UnBlind(1, input, f.chain.Secret); return err })
	}
	// did it pass the outer decoder?
	var any asn1.RawValue
	if _, err := asn1.Unmarshal(input, &any); err == nil {
		parsed = true
	}
	if target == "bls.Verifier.Verify" || target == "bls.Verifier.AggregateSignatures" {
		parsed = len(input) == len(f.blsAgg)
	}
	o.Key = fmt.Sprintf("%s/%x", target, input)
	o.NonTrivial = parsed
	o.Classes = append(o.Classes, "target="+target)
	if parsed {
		o.Classes = append(o.Classes, "passed-outer-decoder")
	}
	if callErr == nil {
		o.Classes = append(o.Classes, "accepted")
	}
	o.Info = map[string]interface{}{"target": target, "mutation": desc, "len": len(input), "accepted": callErr == nil}
	return o
}

func derefStruct(p interface{}) interface{} {
	switch v := p.(type) {
	case *bls.PublicParams:
		return *v
	case *ps.RawBlindSignature:
		return *v
	case *ps.ThresholdPK:
		return *v
	case *ps.RawSigPok:
		return *v
	case *ps.RawSignature:
		return *v
	}
	return p
}

var _ = sim.NewNet

func TestC10Crypto(t *testing.T) {
	theT = t
	vh.Prop[c10CryptoCase]{ID: "C10", Test: "TestC10Crypto", Gen: genC10Crypto, Run: runC10Crypto,
		Sample: func(c c10CryptoCase, o *vh.Outcome) interface{} { return o.Info }}.Main(t)
}
