package checks

import (
	"context"
	"fmt"
	"sync"
	"testing"
	"time"

	"pgregory.net/rapid"

	"verif/core/backends"
	"verif/core/sim"
	"verif/core/stack"
	"verif/vh"
)

// C10 targets T1 (Scheme.HandleMessage, loud) and T2 (silent-mode party: buffer
// in front of the dispatcher), DESIGN.md §3 C10. Structure-aware: the corpus is
// captured from a fault-free reference run of the very configuration under
// test, then truncated / extended / field-mutated and injected in a generated
// session state.

// mutation of a byte string --------------------------------------------------

type mut struct {
	Op   int // 0 keep, 1 truncate, 2 extend, 3 flip bit, 4 set byte, 5 splice, 6 raw, 7 delete range, 8 duplicate range, 9 zero tail, 10 hostile constant, 11 truncate to 0..8 bytes
	A, B int
	Raw  []byte
}

func genMut(t *rapid.T, label string) mut {
	return mut{
		Op:  rapid.SampledFrom([]int{0, 1, 1, 1, 2, 3, 3, 4, 4, 5, 6, 6, 7, 8, 9, 10, 10, 10, 11, 11, 13, 13, 14}).Draw(t, label+"op"),
		A:   rapid.IntRange(0, 400).Draw(t, label+"a"),
		B:   rapid.IntRange(0, 255).Draw(t, label+"b"),
		Raw: rapid.SliceOfN(rapid.Byte(), 0, 40).Draw(t, label+"raw"),
	}
}

func (m mut) apply(base, other []byte) []byte {
	b := append([]byte(nil), base...)
	n := len(b)
	switch m.Op {
	case 1:
		return b[:m.A%(n+1)]
	case 2:
		return append(b, m.Raw...)
	case 3:
		if n > 0 {
			b[m.A%n] ^= 1 << uint(m.B%8)
		}
	case 4:
		if n > 0 {
			b[m.A%n] = byte(m.B)
		}
	case 5:
		cut := m.A % (n + 1)
		oc := 0
		if len(other) > 0 {
			oc = m.B % (len(other) + 1)
		}
		return append(b[:cut], other[oc:]...)
	case 6:
		return append([]byte(nil), m.Raw...)
	case 7:
		if n > 0 {
			from := m.A % n
			to := from + 1 + m.B%8
			if to > n {
				to = n
			}
			return append(b[:from], b[to:]...)
		}
	case 8:
		if n > 0 {
			from := m.A % n
			to := from + 1 + m.B%8
			if to > n {
				to = n
			}
			return append(b[:to], b[from:]...)
		}
	case 9:
		for i := m.A % (n + 1); i < n; i++ {
			b[i] = 0
		}
	case 14: // the base frame turned into a synchroniser *response* with a member list that differs per A
		if n > 0 {
			b[0] = 3
		}
		for i := 0; i <= m.A%16; i++ {
			b = append(b, byte(m.A), 0x77)
		}
		return b
	case 10:
		return append([]byte(nil), hostileConstants[m.A%len(hostileConstants)]...)
	case 11:
		k := m.A % 9
		if k > n {
			k = n
		}
		return b[:k]
	}
	return b
}

// hostileConstants: shapes that sit exactly on the length checks of the wire decoders.
var hostileConstants = func() [][]byte {
	var hs [][]byte
	hs = append(hs, []byte{}, []byte{0xFF}, []byte{0x00}, []byte{0x7F}, []byte{0x80})
	for l := 2; l <= 12; l++ { // short acknowledgements: round | sender(2) | digest of 0..9 bytes
		a := make([]byte, l)
		a[0] = 1
		if l > 2 {
			a[2] = 1
		}
		for i := 3; i < l; i++ {
			a[i] = byte(0xA0 + i)
		}
		hs = append(hs, a)
	}
	for tag := 0; tag <= 4; tag++ { // 0xFF | backend tag [| one byte]
		hs = append(hs, []byte{0xFF, byte(tag)}, []byte{0xFF, byte(tag), 0x30})
	}
	for _, l := range []int{1, 2, 31, 32, 33, 34, 35, 36} { // synchroniser frames around the 33-byte header
		for ty := 0; ty <= 4; ty++ {
			f := make([]byte, l)
			f[0] = byte(ty)
			hs = append(hs, f)
		}
	}
	// ASN.1 shells
	hs = append(hs, []byte{0xFF, 1, 0x30, 0x00}, []byte{0xFF, 3, 0x30, 0x02, 0x04, 0x00}, []byte{0xFF, 1, 0x30, 0x80}, []byte{0xFF, 3, 0x30, 0x84, 0xFF, 0xFF, 0xFF, 0xFF})
	return hs
}()

// case -----------------------------------------------------------------------

type c10Injection struct {
	Base   int // index into the captured corpus
	Other  int // second corpus entry (splice)
	Mut    mut
	Type   int  // 0 keep, 1 sync, 2 mpc, 3 none(0), 4 unknown(7), 5 255
	Topic  int  // 0 keep, 1 other live topic, 2 unknown 32 bytes, 3 empty, 4 short(1..7), 5 long(33), 6 nil, 7 a 32-byte topic that is unique per flood position, 8 one fixed unknown 32-byte topic
	Source int  // 0 keep (a participant), 1 another participant, 2 configured outsider, 3 unknown id
	Victim int  // index into participants, used when it differs from the source
	Idx    int  `json:",omitempty"` // position inside a flood (set when a flood injection is expanded)
	Flood  bool `json:",omitempty"`
}

type c10StackCase struct {
	Silent  bool
	Backend string // bls | ps | rec
	Op      string // keygen | sign
	State   int    // 0 idle (never used), 1 running (after K deliveries), 2 finished
	K       int
	Inj     []c10Injection
	Sched   sim.Schedule
}

type corpusKey struct {
	silent  bool
	backend string
	op      string
}

var (
	corpusMu    sync.Mutex
	corpusCache = map[corpusKey][]*sim.Frame{}
)

const (
	c10N        = 3 // session participants 1..3
	c10Outsider = 4 // configured, not participating
	c10Unknown  = 9 // not configured
	c10Deadline = 30 * time.Second
)

func c10Membership() map[uint16]uint16 {
	return map[uint16]uint16{1: 1, 2: 2, 3: 3, 4: 4}
}

// c10Cluster builds the 4-node universe (3 participants + configured outsider).
func c10Cluster(net *sim.Net, silent bool, backend string, tape *backends.Tape) *stack.Cluster {
	all := []uint16{1, 2, 3}
	kgf, sf := c11Factories(backend, all, 2, tape)
	return stack.New(net, stack.Config{
		Membership: c10Membership(), Silent: silent, Threshold: c10N - 1, KGF: kgf, SF: sf,
		Pick: func(node uint16) func([]byte, int) []uint16 {
			return func([]byte, int) []uint16 { return []uint16{1, 2, 3} }
		},
	})
}

// session runs one KeyGen or Sign among participants 1..3; returns the calls.
func c10Session(cl *stack.Cluster, d *sim.Driver, ctx context.Context, op string, topic string) []*sim.Call {
	var calls []*sim.Call
	for _, id := range []uint16{1, 2, 3} {
		if op == "sign" {
			calls = append(calls, cl.SignCall(ctx, id, []byte("0123456789abcdef0123456789abcdef"), topic))
		} else {
			calls = append(calls, cl.KeyGenCall(ctx, id, c10N, 2))
		}
	}
	d.Calls = calls
	return calls
}

func callsOK(calls []*sim.Call) (bool, string) {
	for i, c := range calls {
		if !c.IsDone() {
			return false, fmt.Sprintf("call %d (%s) has not returned", i, c.Name)
		}
		if c.Panic != "" {
			return false, fmt.Sprintf("call %d (%s) panicked: %s", i, c.Name, c.Panic)
		}
		if c.Err != nil {
			return false, fmt.Sprintf("call %d (%s) failed: %v", i, c.Name, c.Err)
		}
	}
	return true, ""
}

// captureCorpus runs the configuration fault-free and returns every frame.
func captureCorpus(k corpusKey) []*sim.Frame {
	corpusMu.Lock()
	defer corpusMu.Unlock()
	if c, ok := corpusCache[k]; ok {
		return c
	}
	var frames []*sim.Frame
	sim.Bubble(theT, func() {
		net := sim.NewNet()
		cl := c10Cluster(net, k.silent, k.backend, &backends.Tape{})
		defer cl.StopAll()
		ctx, cancel := context.WithTimeout(context.Background(), time.Hour)
		defer cancel()
		if k.op == "sign" {
			d0 := &sim.Driver{Net: net, Sched: &sim.Schedule{}, DrainAfterDone: true, StartAllFirst: true}
			calls := c10Session(cl, d0, ctx, "keygen", "")
			d0.Run()
			for i, c := range calls {
				cl.Nodes[uint16(i+1)].Party.SetStoredData(c.Data)
			}
		}
		start := net.Sent()
		d := &sim.Driver{Net: net, Sched: &sim.Schedule{}, DrainAfterDone: true, StartAllFirst: true}
		c10Session(cl, d, ctx, k.op, "topic-c10")
		d.Run()
		frames = net.LogCopy()[start:]
		cancel()
		cl.StopAll()
		time.Sleep(time.Second)
	})
	corpusCache[k] = frames
	return frames
}

func genC10Stack(silent bool) func(t *rapid.T) c10StackCase {
	return func(t *rapid.T) c10StackCase {
		var c c10StackCase
		c.Silent = silent
		c.Backend = rapid.SampledFrom([]string{"bls", "bls", "rec", "rec", "ps"}).Draw(t, "backend")
		c.Op = "keygen"
		if c.Backend == "rec" && rapid.Bool().Draw(t, "sign") {
			c.Op = "sign"
		}
		c.State = rapid.SampledFrom([]int{0, 1, 1, 1, 1, 2}).Draw(t, "state")
		c.K = rapid.IntRange(0, 120).Draw(t, "k")
		n := rapid.IntRange(1, 3).Draw(t, "ninj")
		for i := 0; i < n; i++ {
			c.Inj = append(c.Inj, c10Injection{
				Base:   rapid.IntRange(0, 1000).Draw(t, "base"),
				Other:  rapid.IntRange(0, 1000).Draw(t, "other"),
				Mut:    genMut(t, "m"),
				Type:   rapid.SampledFrom([]int{0, 0, 0, 0, 0, 1, 2, 3, 4, 5}).Draw(t, "type"),
				Topic:  rapid.SampledFrom([]int{0, 0, 0, 0, 0, 1, 2, 3, 4, 5, 6}).Draw(t, "topic"),
				Source: rapid.SampledFrom([]int{0, 0, 1, 2, 2, 3}).Draw(t, "source"),
				Victim: rapid.IntRange(0, 2).Draw(t, "victim"),
			})
		}
		if silent && rapid.IntRange(0, 39).Draw(t, "flood") == 0 {
			c.Inj[0].Mut = mut{Op: rapid.SampledFrom([]int{15, 16, 16}).Draw(t, "floodKind")}
		}
		c.Sched = genSchedule(t, 200)
		return c
	}
}

const c10TopicFlood = 10005 // SilentScheme lets a sender have 10000 topics in flight

type c10StackInfo struct {
	Floods      int
	Injected    []string
	MayAbort    bool
	FirstOK     bool
	FirstErr    string `json:",omitempty"`
	SecondOK    bool
	Delivered   int
	ReachedDeep int // injections whose frame was accepted past the first validation step (decoded as ack/payload/sync frame of a live topic)
}

func runC10Stack(c c10StackCase) *vh.Outcome {
	o := &vh.Outcome{}
	info := &c10StackInfo{}
	o.Info = info
	corpus := captureCorpus(corpusKey{c.Silent, c.Backend, c.Op})
	if len(corpus) == 0 {
		o.Fail = vh.Failf("C10/harness/no-corpus", "reference run produced no frames")
		return o
	}
	var fail *vh.Failure
	br := sim.Bubble(theT, func() {
		net := sim.NewNet()
		cl := c10Cluster(net, c.Silent, c.Backend, &backends.Tape{})
		defer cl.StopAll()
		root, cancelRoot := context.WithCancel(context.Background())
		defer cancelRoot()
		if c.Op == "sign" {
			ctx0, cancel0 := context.WithTimeout(root, time.Hour)
			d0 := &sim.Driver{Net: net, Sched: &sim.Schedule{}, DrainAfterDone: true, StartAllFirst: true}
			calls := c10Session(cl, d0, ctx0, "keygen", "")
			d0.Run()
			cancel0()
			if ok, why := callsOK(calls); !ok {
				fail = vh.Failf("C10/harness/setup", "setup key generation failed: %s", why)
				return
			}
			for i, cc := range calls {
				cl.Nodes[uint16(i+1)].Party.SetStoredData(cc.Data)
			}
		}

		liveTopics := map[string]bool{}
		var topicList [][]byte
		for _, f := range corpus {
			if !liveTopics[string(f.Topic)] {
				liveTopics[string(f.Topic)] = true
				topicList = append(topicList, f.Topic)
			}
		}

		mayAbort := false
		var injections []c10Injection
		for _, in := range c.Inj {
			if in.Mut.Op == 13 { // burst: many different responses derived from one valid frame of one member
				for i := 0; i < 10; i++ {
					x := in
					x.Mut = mut{Op: 14, A: i}
					injections = append(injections, x)
				}
				continue
			}
			if in.Mut.Op == 15 || in.Mut.Op == 16 {
				// floods that cross the documented limits of the silent-mode buffer: 15 = one sender opens more topics than a
				// sender may have in flight (10000), 16 = one sender sends more messages on one waiting topic than it may (100)
				count, topic := c10TopicFlood, 7
				if in.Mut.Op == 16 {
					count, topic = 110, 8
				}
				for i := 0; i < count; i++ {
					x := in
					x.Mut = mut{Op: 0}
					x.Type, x.Topic, x.Idx, x.Flood = 2, topic, i, true
					injections = append(injections, x)
				}
				info.Floods++
				continue
			}
			if in.Mut.Op == 12 { // batch: every hostile constant in turn
				for i := range hostileConstants {
					x := in
					x.Mut = mut{Op: 10, A: i}
					injections = append(injections, x)
				}
				continue
			}
			injections = append(injections, in)
		}
		inject := func(d *sim.Driver, state int) bool {
			for _, in := range injections {
				base := corpus[in.Base%len(corpus)]
				other := corpus[in.Other%len(corpus)]
				f := &sim.Frame{From: base.From, To: base.To, MsgType: base.MsgType, Topic: append([]byte(nil), base.Topic...), Injected: true}
				f.Data = in.Mut.apply(base.Data, other.Data)
				switch in.Type {
				case 1:
					f.MsgType = 1
				case 2:
					f.MsgType = 2
				case 3:
					f.MsgType = 0
				case 4:
					f.MsgType = 7
				case 5:
					f.MsgType = 255
				}
				switch in.Topic {
				case 1:
					f.Topic = append([]byte(nil), topicList[(in.Base+in.Other)%len(topicList)]...)
				case 2:
					f.Topic = make([]byte, 32)
					for i := range f.Topic {
						f.Topic[i] = byte(in.Base*31 + i*17 + 1)
					}
				case 3:
					f.Topic = []byte{}
				case 4:
					f.Topic = f.Topic[:1+in.Other%7]
				case 5:
					f.Topic = append(f.Topic, 0x42)
				case 6:
					f.Topic = nil
				case 7:
					f.Topic = make([]byte, 32)
					f.Topic[0], f.Topic[1], f.Topic[2], f.Topic[3] = 0xF1, byte(in.Idx>>16), byte(in.Idx>>8), byte(in.Idx)
				case 8:
					f.Topic = make([]byte, 32)
					f.Topic[0], f.Topic[31] = 0xF2, byte(in.Base)
				}
				switch in.Source {
				case 1:
					f.From = uint16(1 + (int(base.From))%3)
				case 2:
					f.From = c10Outsider
				case 3:
					f.From = c10Unknown
				}
				if f.To == f.From || f.To > 3 || f.To < 1 { // never the receiver's own id (transport authenticates peers)
					f.To = uint16(1 + (int(f.From)+in.Victim)%3)
					if f.To == f.From {
						f.To = uint16(1 + int(f.To)%3)
					}
				}
				// classification (DESIGN §3 C10 oracle 3)
				participant := f.From >= 1 && f.From <= 3
				configured := participant || f.From == c10Outsider
				live := liveTopics[string(f.Topic)]
				// idle/finished states ignore everything - except that in silent mode frames that arrive
				// before the local party starts are buffered for the coming session by design
				quiet := state == 2 || (state == 0 && !c.Silent)
				harmless := quiet || !configured || !live || (!participant && f.MsgType == 2) || (f.MsgType != 1 && f.MsgType != 2)
				if in.Flood && participant && c.Silent {
					// a participant that exceeds its limits is shed by the buffer - its genuine session traffic included
					harmless = false
				}
				if !harmless {
					mayAbort = true
				}
				if live && (f.MsgType == 1 || f.MsgType == 2) && len(f.Data) >= 4 {
					info.ReachedDeep++
				}
				if len(info.Injected) < 40 {
					info.Injected = append(info.Injected, "")
				}
				info.Injected[len(info.Injected)-1] = fmt.Sprintf("from=%d to=%d type=%d topic=%x.. len=%d harmless=%v", f.From, f.To, f.MsgType, head(f.Topic, 4), len(f.Data), harmless)
				d.DeliverFrame(f)
				if d.HandlerPanic != "" || d.HandlerBlocked != "" {
					return false
				}
			}
			return true
		}

		ctx1, cancel1 := context.WithTimeout(root, c10Deadline)
		defer cancel1()
		d := &sim.Driver{Net: net, Sched: &c.Sched, DrainAfterDone: true, HardStop: c10Deadline + 5*time.Second}
		calls := c10Session(cl, d, ctx1, c.Op, "topic-c10")
		if c.State == 0 {
			// idle: node never used
			if !inject(d, 0) {
				fail = c10HandlerFailure(d, c, "idle")
				return
			}
		}
		if c.State == 1 {
			if c.Silent {
				d.StartAllFirst = false
			}
			target := c.K
			d.Until = func() bool { return len(d.Delivered) >= target || allDone(calls) }
			d.Run()
			d.Until = nil
			if f := driverFailure("C10", d); f != nil {
				fail = f
				return
			}
			if !inject(d, 1) {
				fail = c10HandlerFailure(d, c, "running")
				return
			}
		}
		d.Run()
		cancel1()
		info.Delivered = len(d.Delivered)
		if f := driverFailure("C10", d); f != nil {
			fail = f
			return
		}
		for i, cc := range calls {
			if !cc.IsDone() {
				fail = vh.Failf("C10/hang/"+c.Op, "%s of party %d did not return by deadline+grace after hostile input %v", c.Op, i+1, info.Injected)
				return
			}
			if cc.Panic != "" {
				fail = vh.Failf("C10/panic/"+c.Op, "%s of party %d panicked after hostile input %v: %s", c.Op, i+1, info.Injected, cc.Panic)
				return
			}
		}
		ok, why := callsOK(calls)
		info.FirstOK, info.FirstErr, info.MayAbort = ok, why, mayAbort
		if !ok && !mayAbort {
			fail = vh.Failf(fmt.Sprintf("C10/service-disturbed/%s/state%d", c.Op, c.State), "input that must be ignored (non-participant / unconfigured source / foreign topic / idle state) made a running honest session fail: %s; injected %v", why, info.Injected)
			return
		}
		if c.State == 2 {
			d2 := &sim.Driver{Net: net, Sched: &c.Sched, Pos: d.Pos}
			if !inject(d2, 2) {
				fail = c10HandlerFailure(d2, c, "finished")
				return
			}
		}
		// a subsequent fresh session on the same nodes must succeed
		if c.Op == "sign" || ok {
			// (after a failed key generation there is nothing to sign with; KeyGen is repeated instead)
		}
		ctx2, cancel2 := context.WithTimeout(root, c10Deadline)
		defer cancel2()
		d3 := &sim.Driver{Net: net, Sched: &c.Sched, Pos: d.Pos, DrainAfterDone: true, HardStop: c10Deadline + 5*time.Second, StartAllFirst: c.Silent}
		calls2 := c10Session(cl, d3, ctx2, c.Op, "topic-c10-second")
		d3.Run()
		cancel2()
		if f := driverFailure("C10", d3); f != nil {
			fail = f
			return
		}
		ok2, why2 := callsOK(calls2)
		info.SecondOK = ok2
		if !ok2 {
			fail = vh.Failf(fmt.Sprintf("C10/subsequent-session/%s/silent=%v", c.Op, c.Silent), "a fresh %s session after the hostile input failed: %s; injected %v (first session ok=%v)", c.Op, why2, info.Injected, ok)
			return
		}
		cancelRoot()
		cl.StopAll()
		time.Sleep(3 * time.Minute)
	})
	if br.Panic != "" {
		o.Fail = vh.Failf("C10/harness-panic", "%s", br.Panic)
		return o
	}
	o.Fail = fail
	o.Key = fmt.Sprintf("%+v", c)
	o.NonTrivial = info.ReachedDeep > 0
	o.Classes = append(o.Classes, fmt.Sprintf("state=%d", c.State), "backend="+c.Backend, "op="+c.Op)
	if info.MayAbort {
		o.Classes = append(o.Classes, "may-abort")
		if !info.FirstOK {
			o.Classes = append(o.Classes, "session-aborted-by-participant-input")
		}
	}
	if info.ReachedDeep > 0 {
		o.Classes = append(o.Classes, "reached-past-first-validation")
	}
	return o
}

func head(b []byte, n int) []byte {
	if len(b) < n {
		return b
	}
	return b[:n]
}

func allDone(calls []*sim.Call) bool {
	for _, c := range calls {
		if !c.IsDone() {
			return false
		}
	}
	return true
}

func c10HandlerFailure(d *sim.Driver, c c10StackCase, state string) *vh.Failure {
	target := "T1"
	if c.Silent {
		target = "T2"
	}
	if d.HandlerPanic != "" {
		return vh.Failf(fmt.Sprintf("C10/%s/handler-panic/%s", target, state), "%s", d.HandlerPanic)
	}
	return vh.Failf(fmt.Sprintf("C10/%s/handler-blocked/%s", target, state), "%s", d.HandlerBlocked)
}

func c10StackSample(c c10StackCase, o *vh.Outcome) interface{} {
	return map[string]interface{}{"silent": c.Silent, "backend": c.Backend, "op": c.Op, "state": c.State, "k": c.K, "info": o.Info}
}

// TestC10Hostile: deterministic sweep of the hostile constants over
// (mode, backend, session progress, live topic, message type, source).
func TestC10Hostile(t *testing.T) {
	theT = t
	p := vh.Prop[c10StackCase]{ID: "C10", Test: "TestC10Hostile", Run: runC10Stack, Sample: c10StackSample}
	if vh.EnvStr("VERIF_REPLAY_IN") != "" {
		p.Main(t)
		return
	}
	st := vh.NewStats("C10", "TestC10Hostile")
	defer st.Flush()
	shard, shards := vh.EnvInt("VERIF_SHARD", 0), vh.EnvInt("VERIF_SHARDS", 1)
	ks := []int{0, 12, 45, 90}
	if vh.Thorough() {
		ks = []int{0, 4, 8, 12, 20, 30, 45, 60, 75, 90, 110}
	}
	idx := 0
	p.Enumerate(t, st, func(yield func(c10StackCase) bool) {
		for _, silent := range []bool{false, true} {
			for _, be := range []string{"bls", "ps", "rec"} {
				for _, k := range ks {
					for base := 0; base < 3; base++ { // three different live frames (topics / kinds) as carrier
						for _, ty := range []int{1, 2} {
							for _, src := range []int{0, 2, 3} {
								idx++
								if idx%shards != shard%shards {
									continue
								}
								c := c10StackCase{Silent: silent, Backend: be, Op: "keygen", State: 1, K: k,
									Inj: []c10Injection{{Base: base * 37, Mut: mut{Op: 12}, Type: ty, Source: src}}}
								if !yield(c) {
									return
								}
								if ty == 1 && src == 0 { // a burst of different responses built from live synchroniser frames
									for b2 := 0; b2 < 4; b2++ {
										cb := c10StackCase{Silent: silent, Backend: be, Op: "keygen", State: 1, K: k,
											Inj: []c10Injection{{Base: base*37 + b2, Mut: mut{Op: 13}, Type: 0, Source: 0}}}
										if !yield(cb) {
											return
										}
									}
								}
							}
						}
					}
				}
			}
		}
	})
	// floods across the limits of the silent-mode buffer, by a participant, the configured outsider and an unknown node,
	// before the session and while it runs; injections from other sources follow each flood
	p.Enumerate(t, st, func(yield func(c10StackCase) bool) {
		for _, be := range []string{"bls", "rec"} {
			for _, op := range []int{15, 16} {
				for _, src := range []int{0, 2, 3} {
					for _, state := range []int{0, 1} {
						idx++
						if idx%shards != shard%shards {
							continue
						}
						c := c10StackCase{Silent: true, Backend: be, Op: "keygen", State: state, K: 10,
							Inj: []c10Injection{{Base: 5, Mut: mut{Op: op}, Source: src}, {Base: 9, Mut: mut{Op: 0}, Source: 1}, {Base: 11, Mut: mut{Op: 0}, Source: 3, Topic: 2}}}
						if !yield(c) {
							return
						}
					}
				}
			}
		}
	})
	st.Note("TestC10Hostile: %d hostile constants x {loud,silent} x {bls,ps,rec} x %d progress points x 3 carrier frames x {sync,mpc} x {participant,outsider,unknown}", len(hostileConstants), len(ks))
}

func TestC10Loud(t *testing.T) {
	theT = t
	vh.Prop[c10StackCase]{ID: "C10", Test: "TestC10Loud", Gen: genC10Stack(false), Run: runC10Stack, Sample: c10StackSample}.Main(t)
}

func TestC10Silent(t *testing.T) {
	theT = t
	vh.Prop[c10StackCase]{ID: "C10", Test: "TestC10Silent", Gen: genC10Stack(true), Run: runC10Stack, Sample: c10StackSample}.Main(t)
}
