package checks

import (
	"context"
	"fmt"
	"runtime"
	"testing"
	"time"

	"pgregory.net/rapid"

	"verif/core/kit"
	"verif/core/sim"
	"verif/vh"
)

// C11 at the level of the built-in backends (DESIGN.md §3 C11, Level B):
// bls.TBLS.KeyGen / ps.TPS.KeyGen driven directly over an ideal broadcast. The
// orchestrator's KeyGen returns as soon as its context ends whatever the backend
// does, so a backend that sleeps for ever with a finished context is only visible
// here. Faults: a peer that goes silent after its k-th message; the caller's
// context ending INSIDE its own j-th send call (the only way to put the end of the
// context between two steps of the backend) - optionally with nothing reaching the
// caller afterwards.

type c11bCase struct {
	Backend string // bls | ps
	N, T    int
	Kind    string // silent | cancel-at-send | deadline
	Peer    int    // silent: the party that stops
	K       int    // silent: after its K-th outgoing frame
	Caller  int    // cancel-at-send: whose context ends
	J       int    // cancel-at-send: inside its J-th emission (a broadcast counts once)
	Mute    bool   // cancel-at-send: nothing is delivered to the caller afterwards
	Sched   sim.Schedule
}

type c11bInfo struct {
	Frames   int
	PerParty map[int]int
	FaultHit bool
	Results  map[int]string
}

const (
	c11bDeadline = 20 * time.Second
	c11bGrace    = 5 * time.Second
)

func runC11B(c c11bCase) *vh.Outcome {
	o := &vh.Outcome{}
	info := &c11bInfo{PerParty: map[int]int{}, Results: map[int]string{}}
	o.Info = info
	parties := u16s(seq(1, c.N))
	var fail *vh.Failure
	br := sim.Bubble(theT, func() {
		k := kit.New(kit.Kind{Name: c.Backend, L: 1}, parties, c.T, nil)
		root, cancelRoot := context.WithCancel(context.Background())
		defer cancelRoot()
		ctxs := map[uint16]context.Context{}
		cancels := map[uint16]context.CancelFunc{}
		for _, p := range parties {
			ctxs[p], cancels[p] = context.WithTimeout(root, c11bDeadline)
		}
		d := &sim.Driver{Net: k.Net, Sched: &c.Sched, DrainAfterDone: false, HardStop: c11bDeadline + c11bGrace}
		per := map[uint16]int{}
		cancelled := false
		var cancelledAt time.Duration
		mute := false
		k.Net.Interpose = func(f *sim.Frame) []*sim.Frame {
			per[f.From]++
			info.Frames++
			switch c.Kind {
			case "silent":
				if int(f.From) == c.Peer && per[f.From] > c.K {
					info.FaultHit = true
					return nil
				}
			}
			if mute && int(f.To) == c.Caller {
				return nil
			}
			return []*sim.Frame{f}
		}
		if c.Kind == "cancel-at-send" {
			emitted := 0
			k.OnEmit = func(from uint16, payload []byte, bcast bool, to uint16) {
				if int(from) != c.Caller {
					return
				}
				emitted++
				if emitted-1 == c.J && !cancelled {
					cancelled = true
					cancelledAt = d.Now()
					info.FaultHit = true
					cancels[uint16(c.Caller)]() // inside the caller's own send call, no harness lock held
					if c.Mute {
						mute = true
					}
					for i := 0; i < 4; i++ {
						runtime.Gosched() // whoever watches that context gets to run before the sender carries on
					}
				}
			}
		}
		callOf := map[int]*sim.Call{}
		for _, p := range parties {
			p := p
			if c.Kind == "silent" && c.K == 0 && int(p) == c.Peer {
				continue // never starts
			}
			b := k.Backends[p]
			call := &sim.Call{Name: fmt.Sprintf("keygen@%d", p), Start: func(cl *sim.Call) {
				data, err := b.KeyGen(ctxs[p])
				cl.Finish(data, err)
			}}
			callOf[int(p)] = call
			d.Calls = append(d.Calls, call)
		}
		d.Run()
		for p, n := range per {
			info.PerParty[int(p)] = n
		}
		if f := driverFailure("C11", d); f != nil {
			fail = f
			return
		}
		for id, call := range callOf {
			switch {
			case !call.IsDone():
				what := fmt.Sprintf("%v (virtual) after it started, deadline %v", d.Now(), c11bDeadline)
				if c.Kind == "cancel-at-send" && id == c.Caller && cancelled {
					what = fmt.Sprintf("%v after its context was cancelled", d.Now()-cancelledAt)
				}
				fail = vh.Failf(fmt.Sprintf("C11/backend-hang/%s/%s", c.Backend, c.Kind), "%s KeyGen of party %d has not returned %s (fault %s peer=%d k=%d caller=%d j=%d mute=%v, n=%d t=%d)", c.Backend, id, what, c.Kind, c.Peer, c.K, c.Caller, c.J, c.Mute, c.N, c.T)
				return
			case call.Panic != "":
				fail = vh.Failf(fmt.Sprintf("C11/backend-panic/%s", c.Backend), "%s KeyGen of party %d panicked (fault %s): %s", c.Backend, id, c.Kind, call.Panic)
				return
			case call.Err != nil:
				info.Results[id] = "error: " + call.Err.Error()
			default:
				info.Results[id] = "ok"
			}
			if c.Kind == "cancel-at-send" && id == c.Caller && cancelled {
				from := cancelledAt
				if call.StartedAt > from {
					from = call.StartedAt
				}
				if call.ReturnedAt > from+c11bGrace {
					fail = vh.Failf(fmt.Sprintf("C11/backend-hang/%s/cancel-at-send", c.Backend), "%s KeyGen of party %d returned %v after its context was cancelled inside its %d-th send", c.Backend, id, call.ReturnedAt-from, c.J)
					return
				}
			}
		}
		cancelRoot()
		time.Sleep(time.Minute)
	})
	if br.Panic != "" {
		o.Fail = vh.Failf("C11/harness-panic", "%s", br.Panic)
		return o
	}
	o.Fail = fail
	o.Key = fmt.Sprintf("%+v", c)
	o.NonTrivial = info.FaultHit
	o.Classes = append(o.Classes, "backend="+c.Backend, "fault="+c.Kind)
	if c.Mute {
		o.Classes = append(o.Classes, "caller-muted-after-cancellation")
	}
	return o
}

// TestC11Backend: per configuration a fault-free reference run counts the frames of every party; then exhaustively every
// (peer, k) and every (caller, j, mute).
func TestC11Backend(t *testing.T) {
	theT = t
	p := vh.Prop[c11bCase]{ID: "C11", Test: "TestC11Backend", Run: runC11B}
	if vh.EnvStr("VERIF_REPLAY_IN") != "" {
		p.Main(t)
		return
	}
	st := vh.NewStats("C11", "TestC11Backend")
	defer st.Flush()
	shard, shards := vh.EnvInt("VERIF_SHARD", 0), vh.EnvInt("VERIF_SHARDS", 1)
	type cfg struct {
		be   string
		n, t int
	}
	cfgs := []cfg{{"bls", 2, 2}, {"bls", 3, 2}, {"ps", 2, 2}, {"ps", 3, 2}}
	if vh.Thorough() {
		cfgs = append(cfgs, cfg{"bls", 3, 3}, cfg{"bls", 4, 3}, cfg{"ps", 3, 3}, cfg{"ps", 4, 2})
	}
	idx := 0
	complete := true
	p.Enumerate(t, st, func(yield func(c11bCase) bool) {
		for _, cf := range cfgs {
			base := c11bCase{Backend: cf.be, N: cf.n, T: cf.t}
			ref := runC11B(func() c11bCase { c := base; c.Kind = "none"; return c }())
			if ref.Fail != nil {
				t.Errorf("reference run failed: %s", ref.Fail.Message)
				complete = false
				return
			}
			ri := ref.Info.(*c11bInfo)
			for peer := 1; peer <= cf.n; peer++ {
				for k := 0; k <= ri.PerParty[peer]; k++ {
					idx++
					if idx%shards != shard%shards {
						continue
					}
					c := base
					c.Kind, c.Peer, c.K = "silent", peer, k
					if !yield(c) {
						complete = false
						return
					}
				}
			}
			for caller := 1; caller <= cf.n; caller++ {
				for j := 0; j < ri.PerParty[caller]; j++ {
					for _, mute := range []bool{false, true} {
						idx++
						if idx%shards != shard%shards {
							continue
						}
						c := base
						c.Kind, c.Caller, c.J, c.Mute = "cancel-at-send", caller, j, mute
						if !yield(c) {
							complete = false
							return
						}
					}
				}
			}
		}
	})
	st.SetExhaustive(complete)
	st.Note("TestC11Backend: %d backend-level configurations; per configuration every (peer, k) and every (caller, j, mute)", len(cfgs))
}

// TestC11BackendRand adds generated schedules and configurations.
func TestC11BackendRand(t *testing.T) {
	theT = t
	vh.Prop[c11bCase]{ID: "C11", Test: "TestC11BackendRand", Run: runC11B, Gen: func(t *rapid.T) c11bCase {
		var c c11bCase
		c.Backend = rapid.SampledFrom([]string{"bls", "ps"}).Draw(t, "backend")
		c.N = rapid.IntRange(2, 4).Draw(t, "n")
		c.T = rapid.IntRange(2, c.N).Draw(t, "t")
		c.Kind = rapid.SampledFrom([]string{"silent", "cancel-at-send", "cancel-at-send"}).Draw(t, "kind")
		c.Peer = rapid.IntRange(1, c.N).Draw(t, "peer")
		c.K = rapid.IntRange(0, 12).Draw(t, "k")
		c.Caller = rapid.IntRange(1, c.N).Draw(t, "caller")
		c.J = rapid.IntRange(0, 12).Draw(t, "j")
		c.Mute = rapid.Bool().Draw(t, "mute")
		c.Sched = genSchedule(t, 200)
		return c
	}}.Main(t)
}
