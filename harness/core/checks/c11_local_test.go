package checks

import (
	"context"
	"fmt"
	"testing"
	"time"

	"pgregory.net/rapid"

	"verif/core/backends"
	"verif/core/sim"
	"verif/core/stack"
	"verif/vh"
)

// C11, "... and also when a local precondition fails": KeyGen / Sign are called with a configuration or arguments that cannot
// work - nobody else there, a membership that is empty or does not contain the node itself, party counts and thresholds
// out of range, no / unusable stored data, odd digests and topics. Whatever the orchestrator makes of it, the call returns
// (an error, or a result where the arguments happen to make sense) by its deadline and nothing panics - neither the call
// nor a goroutine it leaves behind (a crash of the process is reported by the driver).
//
// Out of the domain (DESIGN 2.10 rule 2): misuse that the code answers with an explicit, documented panic("...") of its own.

type c11LocalCase struct {
	Backend string // rec | bls
	Silent  bool
	N       int // configured nodes 1..N
	// Members: 0 the N nodes; 1 empty map; 2 the caller is not in the map; 3 only the caller; 4 party identifier 0 for the caller
	Members int
	// Callers: 0 only node 1 calls; 1 every configured node calls with the same arguments
	Callers int
	Op      string // keygen | sign
	Total   int    // KeyGen: total parties
	Thr     int    // KeyGen: threshold argument; Sign: Scheme.Threshold
	Stored  int    // Sign: 0 none, 1 garbage, 2 usable by the scripted backend
	Digest  int    // Sign: digest length
	Topic   string
	Sched   sim.Schedule
}

func genC11Local(t *rapid.T) c11LocalCase {
	c := c11LocalCase{
		Backend: rapid.SampledFrom([]string{"rec", "rec", "bls"}).Draw(t, "backend"),
		Silent:  rapid.Bool().Draw(t, "silent"),
		N:       rapid.IntRange(1, 4).Draw(t, "n"),
		Members: rapid.SampledFrom([]int{0, 0, 0, 1, 2, 3, 4}).Draw(t, "members"),
		Callers: rapid.IntRange(0, 1).Draw(t, "callers"),
		Op:      rapid.SampledFrom([]string{"keygen", "keygen", "sign"}).Draw(t, "op"),
		Stored:  rapid.IntRange(0, 2).Draw(t, "stored"),
		Digest:  rapid.SampledFrom([]int{0, 1, 3, 4, 31, 32, 33, 64}).Draw(t, "digest"),
		Topic:   rapid.SampledFrom([]string{"", "x", "t0", "DKG"}).Draw(t, "topic"),
	}
	c.Total = rapid.SampledFrom([]int{-1, 0, 1, 2, c.N, c.N + 1, 1000}).Draw(t, "total")
	c.Thr = rapid.SampledFrom([]int{-1, 0, 1, 2, c.N - 1, c.N, c.N + 1, 1000}).Draw(t, "thr")
	if c.Backend == "bls" && c.Op == "keygen" && c.Thr == 1 {
		// the built-in key generations refuse a threshold of 1 with an explicit panic("empty lagrange coefficient vector"):
		// documented refusal of local misuse, outside the domain (DESIGN 2.10 rule 2)
		c.Thr = 2
	}
	c.Sched = genSchedule(t, 60)
	return c
}

func runC11Local(c c11LocalCase) *vh.Outcome {
	o := &vh.Outcome{NonTrivial: true, Key: fmt.Sprintf("%+v", c)}
	var fail *vh.Failure
	results := map[int]string{}
	o.Info = results
	br := sim.Bubble(theT, func() {
		net := sim.NewNet()
		tape := &backends.Tape{}
		all := u16s(seq(1, c.N))
		membership := map[uint16]uint16{}
		switch c.Members {
		case 0:
			membership = identityMembership(c.N)
		case 2:
			for i := 2; i <= c.N; i++ {
				membership[uint16(i)] = uint16(i)
			}
		case 3:
			membership[1] = 1
		case 4:
			membership = identityMembership(c.N)
			membership[1] = 0
		}
		kgf, sf := c11Factories(c.Backend, all, 2, tape)
		// silent mode: a selection function that does what it is asked for whenever it can (the first `expected` configured nodes)
		pick := func(uint16) func([]byte, int) []uint16 {
			return func(_ []byte, expected int) []uint16 {
				ids := stack.SortedKeys(membership)
				if expected > 0 && expected <= len(ids) {
					ids = ids[:expected]
				}
				return ids
			}
		}
		cl := stack.New(net, stack.Config{Membership: membership, Nodes: all, Silent: c.Silent, Threshold: c.Thr, KGF: kgf, SF: sf, Pick: pick})
		defer cl.StopAll()
		ctx, cancel := context.WithTimeout(context.Background(), 3*time.Second)
		defer cancel()
		callers := all[:1]
		if c.Callers == 1 {
			callers = all
		}
		d := &sim.Driver{Net: net, Sched: &c.Sched, DrainAfterDone: true, HardStop: 40 * time.Second}
		for _, id := range callers {
			if c.Op == "sign" {
				switch c.Stored {
				case 1:
					cl.Nodes[id].Party.SetStoredData([]byte("garbage"))
				case 2:
					cl.Nodes[id].Party.SetStoredData([]byte(fmt.Sprintf("rec:%d", id)))
				}
				d.Calls = append(d.Calls, cl.SignCall(ctx, id, make([]byte, c.Digest), c.Topic))
			} else {
				d.Calls = append(d.Calls, cl.KeyGenCall(ctx, id, c.Total, c.Thr))
			}
		}
		d.Run()
		if f := driverFailure("C11/local", d); f != nil {
			fail = f
			return
		}
		for i, call := range d.Calls {
			id := int(callers[i])
			switch {
			case call.Panic != "":
				results[id] = "panic"
				if fail == nil {
					fail = vh.Failf("C11/local/panic/"+c.Op, "%s on node %d panicked instead of returning an error: %s (configuration %+v)", c.Op, id, call.Panic, c)
				}
			case !call.IsDone():
				results[id] = "not returned"
				if fail == nil {
					fail = vh.Failf("C11/local/hang/"+c.Op, "%s on node %d has not returned %v after its 3s deadline (configuration %+v)", c.Op, id, d.Now()-3*time.Second, c)
				}
			case call.Err != nil:
				results[id] = "error: " + call.Err.Error()
			default:
				results[id] = "ok"
			}
		}
		cancel()
		cl.StopAll()
		time.Sleep(time.Minute)
	})
	if br.Panic != "" && fail == nil {
		fail = vh.Failf("C11/local/panic-in-background/"+c.Op, "a goroutine left behind by %s panicked: %s (configuration %+v)", c.Op, br.Panic, c)
	}
	o.Classes = append(o.Classes, "op="+c.Op, fmt.Sprintf("members=%d", c.Members), "backend="+c.Backend)
	o.Fail = fail
	return o
}

func TestC11Local(t *testing.T) {
	theT = t
	vh.Prop[c11LocalCase]{ID: "C11", Test: "TestC11Local", Gen: genC11Local, Run: runC11Local}.Main(t)
}
