package checks

import (
	"bytes"
	"context"
	"encoding/asn1"
	"fmt"
	"runtime"
	"testing"
	"time"
	"verif/core/asnmut"

	"github.com/IBM/TSS/mpc/bls"
	"github.com/IBM/TSS/mpc/ps"
	tss "github.com/IBM/TSS/types"
	math "github.com/IBM/mathlib"
	"pgregory.net/rapid"

	"verif/core/backends"
	"verif/core/sim"
	"verif/core/stack"
	"verif/vh"
)

// C11: KeyGen and Sign fail cleanly on timeout, cancellation or a vanished
// peer (DESIGN.md §3 C11). Fault enumeration on top of generated reference runs.

type c11Fault struct {
	Kind   string // none | silent | withhold | cancel | baddata | resubmit (sign: peer never starts; at Step the caller submits the same topic again, then another topic) | cancel-at-send (the caller's context ends inside its own J-th Send call; Mute: nothing reaches the caller afterwards) | cancel-at-hook (the caller's context ends inside the backend factory / Init / SetShareData / entry of KeyGen or Sign of its protocol instance)
	Point  string // cancel-at-hook: factory | init | setshare | run
	Mute   bool
	Peer   int // silent: party id
	K      int // silent: number of outgoing frames after which the peer is cut off (0 = never starts)
	J      int // withhold: index of the withheld frame (counted from the start of the operation)
	Step   int // cancel: driver step at which the context is cancelled
	Caller int // cancel / baddata: party id
	Data   int // baddata: 0 empty, 1 truncated, 2 other scheme's, 3 bit flipped, 4 garbage
}

type c11Case struct {
	N, T       int
	Silent     bool
	Backend    string // bls | ps | rec
	Op         string // keygen | sign
	Sched      sim.Schedule
	Fault      c11Fault
	NoDeadline bool // the faulted caller uses a context without deadline (baddata only)
}

type c11Info struct {
	Frames    int         // frames sent during the operation
	PerPeer   map[int]int // frames per sender during the operation
	Steps     int
	Results   map[int]string // party -> "ok" | error text
	Leaked    bool
	FaultHit  bool
	ReturnedS map[int]float64
}

const (
	c11Deadline = 20 * time.Second
	c11Grace    = 5 * time.Second
	c11Linger   = 3 * time.Minute
)

func c11Factories(backend string, all []uint16, t int, tape *backends.Tape) (func(uint16) tss.KeyGenFactory, func(uint16) tss.SignerFactory) {
	switch backend {
	case "ps":
		mk := func(id uint16) *ps.TPS {
			return &ps.TPS{Curve: math.Curves[1], Party: id, Logger: &sim.Logger{}, MessageLength: 1}
		}
		return func(uint16) tss.KeyGenFactory { return func(id uint16) tss.KeyGenerator { return mk(id) } },
			func(uint16) tss.SignerFactory { return func(id uint16) tss.Signer { return mk(id) } }
	case "rec":
		return func(node uint16) tss.KeyGenFactory {
				return func(id uint16) tss.KeyGenerator {
					return &backends.Rec{Node: node, Party: id, Tape: tape, Script: backends.DefaultScript(), Session: "dkg"}
				}
			}, func(node uint16) tss.SignerFactory {
				return func(id uint16) tss.Signer {
					return &backends.Rec{Node: node, Party: id, Tape: tape, Script: backends.DefaultScript(), Session: "sign"}
				}
			}
	default:
		return func(uint16) tss.KeyGenFactory {
				return func(id uint16) tss.KeyGenerator { return &bls.TBLS{Logger: &sim.Logger{}, Party: id} }
			}, func(uint16) tss.SignerFactory {
				return func(id uint16) tss.Signer {
					return &backends.ISigner{Party: id, AllParties: all, T: t, Logger: &sim.Logger{}}
				}
			}
	}
}

// structurallyBadShare: stored share data that still parses but no longer fits the session (k selects what is altered).
func structurallyBadShare(backend string, good []byte, k int) []byte {
	type stored struct {
		Sk          []byte
		PublicKeys  [][]byte
		ThresholdPK []byte
	}
	var sd stored
	if _, err := asn1.Unmarshal(good, &sd); err != nil {
		return append([]byte(nil), good...) // the scripted backend's data has no structure
	}
	if backend == "ps" && k%3 == 0 {
		var xys ps.XYs
		if nb, _, err := asnmut.Reencode(sd.Sk, &xys, asnmut.Op{Field: 1 - (k/3)%2, Kind: k / 6, Arg: k}); err == nil {
			sd.Sk = nb
		}
	} else {
		asnmut.Apply(&sd, asnmut.Op{Field: k % 3, Kind: k / 3, Arg: k})
	}
	out, err := asn1.Marshal(sd)
	if err != nil {
		return append([]byte(nil), good...)
	}
	return out
}

func runC11(c c11Case) *vh.Outcome {
	o := &vh.Outcome{}
	info := &c11Info{PerPeer: map[int]int{}, Results: map[int]string{}, ReturnedS: map[int]float64{}}
	o.Info = info
	all := u16s(seq(1, c.N))
	var fail *vh.Failure
	var okData = map[int][]byte{}
	// badAccepted: the altered share data of a "baddata" fault is still accepted by the signer (PS): the caller then gets a
	// deadline like everybody else - without one, a fault-free loud-mode Sign with the library's local signer may wait for
	// ever (known finding L39, C01), which is not C11's business
	badAccepted := false

	br := sim.Bubble(theT, func() {
		net := sim.NewNet()
		tape := &backends.Tape{}
		kgf, sf := c11Factories(c.Backend, all, c.T, tape)
		// cancel-at-hook: the caller's context ends at a chosen point of the life of its protocol instance
		var hookArmed bool
		var hookFire func()
		hook := func(point string) {
			if hookArmed && point == c.Fault.Point && hookFire != nil {
				hookArmed = false
				hookFire()
			}
		}
		if c.Fault.Kind == "cancel-at-hook" {
			kgf0, sf0 := kgf, sf
			wrap := func(node uint16, b interface{}) {
				if int(node) != c.Fault.Caller {
					return
				}
				hook("factory")
				if r, ok := b.(*backends.Rec); ok {
					r.Hook = hook
				}
			}
			kgf = func(node uint16) tss.KeyGenFactory {
				f := kgf0(node)
				return func(id uint16) tss.KeyGenerator { b := f(id); wrap(node, b); return b }
			}
			sf = func(node uint16) tss.SignerFactory {
				f := sf0(node)
				return func(id uint16) tss.Signer { b := f(id); wrap(node, b); return b }
			}
		}
		cl := stack.New(net, stack.Config{Membership: identityMembership(c.N), Silent: c.Silent, Threshold: c.N - 1, KGF: kgf, SF: sf})
		defer cl.StopAll()
		root, cancelRoot := context.WithCancel(context.Background())
		defer cancelRoot()

		signInput := []byte("0123456789abcdef0123456789abcdef")
		if c.Op == "sign" {
			// fault-free key generation first
			ctx0, cancel0 := context.WithTimeout(root, time.Hour)
			d0 := &sim.Driver{Net: net, Sched: &sim.Schedule{}, DrainAfterDone: true}
			for _, id := range all {
				d0.Calls = append(d0.Calls, cl.KeyGenCall(ctx0, id, c.N, c.T))
			}
			d0.Run()
			cancel0()
			var share1 []byte
			for i, call := range d0.Calls {
				if !call.IsDone() || call.Err != nil || call.Panic != "" {
					o.Discard = "setup-keygen-failed"
					fail = vh.Failf("C11/setup", "fault-free setup KeyGen failed for party %d: done=%v err=%v panic=%s", all[i], call.IsDone(), call.Err, call.Panic)
					return
				}
				cl.Nodes[all[i]].Party.SetStoredData(call.Data)
				if i == 0 {
					share1 = call.Data
				}
			}
			if c.Backend == "ps" {
				// a valid blinded request as the thing to sign
				tp := &ps.TPS{Curve: math.Curves[1], Party: 1, Logger: &sim.Logger{}, MessageLength: 1}
				tp.Init(all, c.T, nil)
				if err := tp.SetShareData(share1); err != nil {
					fail = vh.Failf("C11/setup", "ps share unusable: %v", err)
					return
				}
				tpk, _ := tp.ThresholdPK()
				var prover ps.Prover
				prover.Logger = &sim.Logger{}
				if err := prover.Init(math.Curves[1], 1, tpk, all); err != nil {
					fail = vh.Failf("C11/setup", "prover init: %v", err)
					return
				}
				req, _ := prover.Blind([][]byte{[]byte("m")})
				signInput = req.Bytes()
			}
			if c.Fault.Kind == "baddata" {
				node := cl.Nodes[uint16(c.Fault.Caller)]
				good := d0.Calls[c.Fault.Caller-1].Data
				var bad []byte
				switch c.Fault.Data {
				case 0:
					bad = nil
				case 1:
					bad = good[:len(good)/2]
				case 2:
					bad = []byte("rec:1")
					if c.Backend == "rec" {
						bad = []byte{0x30, 0x03, 0x02, 0x01, 0x01}
					}
				case 3:
					bad = append([]byte(nil), good...)
					bad[len(bad)/3] ^= 0x40
					bad[0] ^= 0x01
				case 4:
					bad = bytes.Repeat([]byte{0xA5}, 40)
				default:
					// well-formed but unusable: the stored structure (secret key, per-party public keys, threshold key) with
					// an element dropped / duplicated / emptied / truncated, for PS also inside the secret key (x, ys)
					bad = structurallyBadShare(c.Backend, good, c.Fault.Data-5)
				}
				node.Party.SetStoredData(bad)
				if c.Backend == "ps" {
					// does the library's own signer still accept the altered data? Then no local precondition fails, and what
					// C11 says about a context without deadline does not apply
					tp := &ps.TPS{Curve: math.Curves[1], Party: uint16(c.Fault.Caller), Logger: &sim.Logger{}, MessageLength: 1}
					tp.Init(all, c.T, nil)
					badAccepted = tp.SetShareData(bad) == nil
				}
			}
		}

		base := net.Sent()
		var sendCancel func()
		muteCaller := false
		perPeer := map[uint16]int{}
		count := 0
		net.Interpose = func(f *sim.Frame) []*sim.Frame {
			idx := count
			count++
			perPeer[f.From]++
			switch c.Fault.Kind {
			case "silent":
				if int(f.From) == c.Fault.Peer && perPeer[f.From] > c.Fault.K {
					info.FaultHit = true
					return nil
				}
			case "withhold":
				if idx == c.Fault.J {
					info.FaultHit = true
					return nil
				}
			}
			if muteCaller && int(f.To) == c.Fault.Caller {
				return nil
			}
			return []*sim.Frame{f}
		}
		_ = base
		if c.Fault.Kind == "cancel-at-send" {
			sent := 0
			net.PreSend = func(from, to uint16, msgType uint8) {
				if int(from) != c.Fault.Caller {
					return
				}
				sent++
				if sent-1 == c.Fault.J && sendCancel != nil {
					info.FaultHit = true
					sendCancel() // inside the caller's own Send call
					sendCancel = nil
					for i := 0; i < 4; i++ {
						runtime.Gosched() // whoever watches that context gets to run before the sender carries on
					}
				}
			}
		}

		ctxs := map[uint16]context.Context{}
		cancels := map[uint16]context.CancelFunc{}
		for _, id := range all {
			if c.NoDeadline && c.Fault.Kind == "baddata" && int(id) == c.Fault.Caller && !badAccepted {
				ctxs[id], cancels[id] = context.WithCancel(root)
			} else {
				ctxs[id], cancels[id] = context.WithTimeout(root, c11Deadline)
			}
		}
		d := &sim.Driver{Net: net, Sched: &c.Sched, DrainAfterDone: false, HardStop: c11Deadline + c11Grace}
		callOf := map[int]*sim.Call{}
		for _, id := range all {
			if (c.Fault.Kind == "silent" && c.Fault.K == 0 || c.Fault.Kind == "resubmit") && int(id) == c.Fault.Peer {
				continue // never starts
			}
			var call *sim.Call
			if c.Op == "sign" {
				call = cl.SignCall(ctxs[id], id, signInput, "topic-c11")
			} else {
				call = cl.KeyGenCall(ctxs[id], id, c.N, c.T)
			}
			callOf[int(id)] = call
			d.Calls = append(d.Calls, call)
		}
		cancelled := false
		var cancelledAt time.Duration
		if c.Fault.Kind == "cancel-at-send" || c.Fault.Kind == "cancel-at-hook" {
			fire := func() {
				cancelled = true
				cancelledAt = d.Now()
				cancels[uint16(c.Fault.Caller)]()
				if c.Fault.Mute {
					muteCaller = true
				}
			}
			if c.Fault.Kind == "cancel-at-send" {
				sendCancel = fire
			} else {
				hookFire = func() { info.FaultHit = true; fire() }
				hookArmed = true
			}
		}
		if c.Fault.Kind == "cancel" {
			d.AfterStep = func() {
				if !cancelled && d.Steps >= c.Fault.Step {
					cancelled = true
					cancelledAt = d.Now()
					if callOf[c.Fault.Caller] != nil && !callOf[c.Fault.Caller].IsDone() {
						info.FaultHit = true
					}
					cancels[uint16(c.Fault.Caller)]()
				}
			}
		}
		if c.Fault.Kind == "resubmit" && c.Op == "sign" {
			stage := 0
			caller := uint16(c.Fault.Caller)
			d.AfterStep = func() {
				if d.Steps < c.Fault.Step {
					return
				}
				switch stage {
				case 0:
					stage = 1
					if first := callOf[c.Fault.Caller]; first != nil && first.Started && !first.IsDone() {
						info.FaultHit = true
					}
					dup := cl.SignCall(ctxs[caller], caller, signInput, "topic-c11")
					dup.Name = "resubmitted-same-topic"
					callOf[1000+c.Fault.Caller] = dup
					d.Calls = append(d.Calls, dup)
				case 1:
					stage = 2
					next := cl.SignCall(ctxs[caller], caller, signInput, "topic-c11-other")
					next.Name = "next-call-other-topic"
					callOf[2000+c.Fault.Caller] = next
					d.Calls = append(d.Calls, next)
				}
			}
		}
		d.Run()
		info.Frames = count
		for p, n := range perPeer {
			info.PerPeer[int(p)] = n
		}
		info.Steps = d.Steps
		if f := driverFailure("C11", d); f != nil {
			fail = f
			return
		}
		// every call must have returned by now (deadline + grace of virtual time)
		for id, call := range callOf {
			if !call.IsDone() {
				kind := "deadline"
				if c.NoDeadline && id == c.Fault.Caller {
					kind = "no-deadline-precondition"
				}
				fail = vh.Failf(fmt.Sprintf("C11/hang/%s/%s/%s", c.Op, c.Backend, kind), "%s on party %d has not returned %v (virtual) after it started; deadline was %v (fault=%+v n=%d t=%d silent=%v)", c.Op, id, d.Now(), c11Deadline, c.Fault, c.N, c.T, c.Silent)
				return
			}
			if call.Panic != "" {
				fail = vh.Failf(fmt.Sprintf("C11/panic/%s/%s", c.Op, c.Backend), "%s on party %d panicked (fault=%+v): %s", c.Op, id, c.Fault, call.Panic)
				return
			}
			info.ReturnedS[id] = call.ReturnedAt.Seconds()
			if call.Err != nil {
				info.Results[id] = "error: " + call.Err.Error()
			} else {
				info.Results[id] = "ok"
				okData[id] = call.Data
				if call.Data == nil {
					fail = vh.Failf(fmt.Sprintf("C11/nil-success/%s/%s", c.Op, c.Backend), "%s on party %d returned neither data nor an error (fault=%+v)", c.Op, id, c.Fault)
					return
				}
			}
			// measured from the later of (cancellation, start of the call): the call may be started after the cancellation
			from := cancelledAt
			if call.StartedAt > from {
				from = call.StartedAt
			}
			if (c.Fault.Kind == "cancel" || c.Fault.Kind == "cancel-at-send" || c.Fault.Kind == "cancel-at-hook") && id == c.Fault.Caller && cancelled && call.ReturnedAt > from+c11Grace {
				fail = vh.Failf(fmt.Sprintf("C11/hang/%s/%s/cancel", c.Op, c.Backend), "%s on party %d returned %v after its context was cancelled", c.Op, id, call.ReturnedAt-from)
				return
			}
			if c.Fault.Kind == "baddata" && id == c.Fault.Caller && call.Err == nil {
				// signing with unusable share data cannot legitimately succeed, unless the flipped bit kept it loadable
				if c.Fault.Data != 3 && c.Fault.Data < 5 {
					fail = vh.Failf(fmt.Sprintf("C11/baddata-success/%s/%s", c.Op, c.Backend), "Sign on party %d succeeded with unusable stored share data (kind %d)", id, c.Fault.Data)
					return
				}
			}
		}
		// after a cancellation inside a callback the node must still serve its caller: one more call (another topic /
		// another key generation) by the same node, alone, has to come back by its own deadline
		if c.Fault.Kind == "cancel-at-send" || c.Fault.Kind == "cancel-at-hook" {
			muteCaller = false
			ctx2, cancel2 := context.WithTimeout(root, 2*time.Second)
			var next *sim.Call
			if c.Op == "sign" {
				next = cl.SignCall(ctx2, uint16(c.Fault.Caller), signInput, "topic-c11-followup")
			} else {
				next = cl.KeyGenCall(ctx2, uint16(c.Fault.Caller), c.N, c.T)
			}
			next.Name = "follow-up-call"
			d2 := &sim.Driver{Net: net, Sched: &c.Sched, Pos: d.Pos, DrainAfterDone: false, HardStop: 2*time.Second + c11Grace, Calls: []*sim.Call{next}}
			d2.Run()
			cancel2()
			if f := driverFailure("C11", d2); f != nil {
				fail = f
				return
			}
			if !next.IsDone() {
				fail = vh.Failf(fmt.Sprintf("C11/hang/%s/%s/follow-up", c.Op, c.Backend), "after %s on party %d had its context cancelled (%+v), the next call on that node has not returned %v after its 2 s deadline", c.Op, c.Fault.Caller, c.Fault, c11Grace)
				return
			}
			if next.Panic != "" {
				fail = vh.Failf(fmt.Sprintf("C11/panic/%s/%s", c.Op, c.Backend), "follow-up call on party %d panicked (fault=%+v): %s", c.Fault.Caller, c.Fault, next.Panic)
				return
			}
		}
		// background goroutines get time to misbehave
		for _, cn := range cancels {
			cn()
		}
		time.Sleep(c11Linger)
		cl.StopAll()
		time.Sleep(time.Second)
	})
	info.Leaked = br.Leaked
	if br.Panic != "" {
		o.Fail = vh.Failf("C11/harness-panic", "%s", br.Panic)
		return o
	}
	if fail != nil {
		o.Fail = fail
		if o.Discard != "" {
			o.Fail = nil
		}
		return o
	}
	// parties that succeeded report identical public material
	if c.Op == "keygen" && c.Backend == "bls" && len(okData) > 1 {
		var ref []byte
		for id, share := range okData {
			tb := &bls.TBLS{Logger: &sim.Logger{}, Party: uint16(id)}
			tb.Init(all, c.T, nil)
			if err := tb.SetShareData(share); err != nil {
				o.Fail = vh.Failf("C11/success-unusable", "party %d returned success but its data does not load: %v", id, err)
				return o
			}
			pp, _ := tb.ThresholdPK()
			if ref == nil {
				ref = pp
			} else if !bytes.Equal(ref, pp) {
				o.Fail = vh.Failf("C11/success-differs", "parties that completed KeyGen under fault %+v report different public material", c.Fault)
				return o
			}
		}
	}
	o.Key = fmt.Sprintf("%d/%d/%v/%s/%s/%+v/%v/%v", c.N, c.T, c.Silent, c.Backend, c.Op, c.Fault, c.NoDeadline, c.Sched)
	o.NonTrivial = info.FaultHit || c.Fault.Kind == "baddata"
	if badAccepted && c.NoDeadline {
		o.Classes = append(o.Classes, "no-deadline-dropped(altered-data-still-accepted,L39)")
	}
	o.Classes = append(o.Classes, "fault="+c.Fault.Kind, "backend="+c.Backend, "op="+c.Op, fmt.Sprintf("silent=%v", c.Silent))
	nerr := 0
	for _, r := range info.Results {
		if r != "ok" {
			nerr++
		}
	}
	if nerr > 0 {
		o.Classes = append(o.Classes, "some-call-returned-error")
	}
	if br.Leaked {
		o.Classes = append(o.Classes, "leaked-goroutines")
	}
	return o
}

func c11Sample(c c11Case, o *vh.Outcome) interface{} {
	return map[string]interface{}{"n": c.N, "t": c.T, "silent": c.Silent, "backend": c.Backend, "op": c.Op, "fault": c.Fault, "no_deadline": c.NoDeadline, "info": o.Info}
}

// TestC11Enum: for each configuration a fault-free reference run numbers the
// frames; then every (peer, k) and every single withheld frame is executed.
func TestC11Enum(t *testing.T) {
	theT = t
	p := vh.Prop[c11Case]{ID: "C11", Test: "TestC11Enum", Run: runC11, Sample: c11Sample}
	if in := vh.EnvStr("VERIF_REPLAY_IN"); in != "" {
		p.Main(t)
		return
	}
	st := vh.NewStats("C11", "TestC11Enum")
	defer st.Flush()
	type cfg struct {
		n, t    int
		silent  bool
		backend string
		op      string
	}
	var cfgs []cfg
	if vh.Thorough() {
		for _, b := range []string{"bls", "ps", "rec"} {
			for _, op := range []string{"keygen", "sign"} {
				for _, silent := range []bool{false, true} {
					for _, nt := range [][2]int{{2, 2}, {3, 2}, {3, 3}, {4, 3}} {
						if b == "ps" && nt[0] == 4 {
							continue
						}
						cfgs = append(cfgs, cfg{nt[0], nt[1], silent, b, op})
					}
				}
			}
		}
	} else {
		cfgs = []cfg{
			{3, 2, false, "bls", "keygen"}, {3, 2, true, "bls", "keygen"},
			{2, 2, false, "ps", "keygen"},
			{3, 2, false, "rec", "sign"}, {3, 3, true, "rec", "sign"},
			{3, 2, false, "bls", "sign"}, {2, 2, false, "ps", "sign"},
		}
	}
	shard, shards := vh.EnvInt("VERIF_SHARD", 0), vh.EnvInt("VERIF_SHARDS", 1)
	nsched := 1
	if vh.Thorough() {
		nsched = 3
	}
	idx := 0
	complete := true
	p.Enumerate(t, st, func(yield func(c11Case) bool) {
		for _, cf := range cfgs {
			for si := 0; si < nsched; si++ {
				sched := sim.Schedule{}
				if si > 0 {
					// deterministic pseudo-random reference schedules derived from the seed
					x := uint32(vh.EnvInt("VERIF_SEED", 1)*7919 + si*104729)
					for i := 0; i < 300; i++ {
						x = x*1664525 + 1013904223
						sched.Choices = append(sched.Choices, int(x>>16))
					}
					sched.Bias = []int{int(x>>8) % 6, int(x>>12) % 6, 0, 1}
				}
				base := c11Case{N: cf.n, T: cf.t, Silent: cf.silent, Backend: cf.backend, Op: cf.op, Sched: sched}
				idx++
				if idx%shards != shard%shards {
					continue
				}
				ref := runC11(base)
				if ref.Fail != nil {
					t.Errorf("reference run failed: %s: %s", ref.Fail.Signature, ref.Fail.Message)
					complete = false
					return
				}
				ri := ref.Info.(*c11Info)
				slow := false
				for _, r := range ri.Results {
					if r != "ok" {
						slow = true
					}
				}
				if slow {
					// the schedule spent the whole virtual deadline on delays: not a usable reference
					st.Record(&vh.Outcome{Discard: "reference-schedule-too-slow-for-deadline"}, nil)
					complete = false
					continue
				}
				for peer := 1; peer <= cf.n; peer++ {
					for k := 0; k <= ri.PerPeer[peer]; k++ {
						c := base
						c.Fault = c11Fault{Kind: "silent", Peer: peer, K: k}
						if !yield(c) {
							complete = false
							return
						}
					}
				}
				for j := 0; j < ri.Frames; j++ {
					c := base
					c.Fault = c11Fault{Kind: "withhold", J: j}
					if !yield(c) {
						complete = false
						return
					}
				}
				for s := 0; s <= ri.Steps; s += 1 + ri.Steps/12 {
					c := base
					c.Fault = c11Fault{Kind: "cancel", Step: s, Caller: 1 + s%cf.n}
					if !yield(c) {
						complete = false
						return
					}
				}
				for caller := 1; caller <= cf.n; caller++ {
					for j := 0; j < ri.PerPeer[caller]; j++ {
						for _, mute := range []bool{false, true} {
							c := base
							c.Fault = c11Fault{Kind: "cancel-at-send", Caller: caller, J: j, Mute: mute}
							if !yield(c) {
								complete = false
								return
							}
						}
					}
					points := []string{"factory"}
					if cf.backend == "rec" {
						points = []string{"factory", "init", "setshare", "run"}
					}
					for _, pt := range points {
						c := base
						c.Fault = c11Fault{Kind: "cancel-at-hook", Caller: caller, Point: pt}
						if !yield(c) {
							complete = false
							return
						}
					}
				}
				if cf.op == "sign" {
					for s := 0; s <= 40; s += 8 {
						c := base
						c.Fault = c11Fault{Kind: "resubmit", Peer: 1 + s%cf.n, Caller: 1 + (s+1)%cf.n, Step: s}
						if !yield(c) {
							complete = false
							return
						}
					}
					for data := 0; data <= 4+27; data++ {
						for _, nd := range []bool{false, true} {
							c := base
							c.Fault = c11Fault{Kind: "baddata", Caller: 1 + data%cf.n, Data: data}
							c.NoDeadline = nd
							if !yield(c) {
								complete = false
								return
							}
						}
					}
				}
			}
		}
	})
	st.SetExhaustive(complete)
	st.Note("TestC11Enum: %d configurations x %d reference schedules; per reference run every (peer,k), every single withheld frame, 13 cancellation points, 10 unusable-share-data variants (sign)", len(cfgs), nsched)
}

// TestC11Rand: random configuration, schedule and fault.
func TestC11Rand(t *testing.T) {
	theT = t
	vh.Prop[c11Case]{ID: "C11", Test: "TestC11Rand", Run: runC11, Sample: c11Sample, Gen: func(t *rapid.T) c11Case {
		var c c11Case
		c.Backend = rapid.SampledFrom([]string{"bls", "bls", "rec", "rec", "ps"}).Draw(t, "backend")
		maxN := 4
		if c.Backend == "ps" {
			maxN = 3
		}
		c.N = rapid.IntRange(2, maxN).Draw(t, "n")
		c.T = rapid.IntRange(2, c.N).Draw(t, "t")
		c.Silent = rapid.Bool().Draw(t, "silent")
		c.Op = rapid.SampledFrom([]string{"keygen", "sign"}).Draw(t, "op")
		c.Sched = genSchedule(t, 400)
		kinds := []string{"silent", "silent", "withhold", "withhold", "cancel", "cancel-at-send", "cancel-at-send", "cancel-at-hook"}
		if c.Op == "sign" {
			kinds = append(kinds, "baddata", "resubmit")
		}
		c.Fault.Kind = rapid.SampledFrom(kinds).Draw(t, "fault")
		switch c.Fault.Kind {
		case "silent":
			c.Fault.Peer = rapid.IntRange(1, c.N).Draw(t, "peer")
			c.Fault.K = rapid.IntRange(0, 60).Draw(t, "k")
		case "withhold":
			c.Fault.J = rapid.IntRange(0, 150).Draw(t, "j")
		case "cancel":
			c.Fault.Step = rapid.IntRange(0, 200).Draw(t, "step")
			c.Fault.Caller = rapid.IntRange(1, c.N).Draw(t, "caller")
		case "cancel-at-send":
			c.Fault.Caller = rapid.IntRange(1, c.N).Draw(t, "caller")
			c.Fault.J = rapid.IntRange(0, 40).Draw(t, "j")
			c.Fault.Mute = rapid.Bool().Draw(t, "mute")
		case "cancel-at-hook":
			c.Fault.Caller = rapid.IntRange(1, c.N).Draw(t, "caller")
			c.Fault.Point = rapid.SampledFrom([]string{"factory", "init", "setshare", "run"}).Draw(t, "point")
		case "baddata":
			c.Fault.Caller = rapid.IntRange(1, c.N).Draw(t, "caller")
			c.Fault.Data = rapid.IntRange(0, 4+27).Draw(t, "data")
			c.NoDeadline = rapid.Bool().Draw(t, "nodeadline")
		case "resubmit":
			c.Fault.Peer = rapid.IntRange(1, c.N).Draw(t, "peer")
			c.Fault.Caller = 1 + (c.Fault.Peer+rapid.IntRange(0, c.N-2).Draw(t, "callerOff"))%c.N
			if c.Fault.Caller == c.Fault.Peer {
				c.Fault.Caller = 1 + c.Fault.Peer%c.N
			}
			c.Fault.Step = rapid.IntRange(0, 80).Draw(t, "step")
		}
		return c
	}}.Main(t)
}
