package checks

import (
	"context"
	"fmt"
	"github.com/IBM/TSS/threshold"
	"os"
	"strings"
	"sync"
	"testing"
	"time"

	tss "github.com/IBM/TSS/types"
	"pgregory.net/rapid"

	"verif/core/backends"
	"verif/core/sim"
	"verif/core/stack"
	"verif/vh"
)

// C12: sessions leave no residue and do not interfere (DESIGN.md §3 C12).
// Stateful, model-based: a generated list of session attempts and traffic
// events is executed on one cluster; a model says which attempts must succeed.

type c12Op struct {
	Kind  int // 9 sign cancelled while the signer of one node is still being prepared, 10 keygen with two extra KeyGen calls on one node while it runs; 0 keygen complete, 1 keygen one missing, 2 sign complete, 3 sign one missing, 4 sign cancelled midway, 5 two signs on different topics concurrently, 6 second sign on the same topic while the first runs, 7 replay recorded frames, 8 foreign frames (configured outsider / unknown node), 11 sign complete / 16 sign / 17 keygen twice in a row on one topic while one node's callback goroutine of the first attempt is held after it pushed its result, 15 sign in which one signer is cut off after the first barrier (fails at the second) followed by a replay of the dead session's synchroniser frames, 13 keygen / 14 sign in which one node's context ends inside the factory / Init / SetShareData / run entry of its protocol instance, 12 keygen complete while copies of the session's own live frames arrive under the source of the configured member that is not a participant (and of an unknown node)
	Topic int
	Who   int // missing party / cancelling party / duplicate caller (index)
	At    int // deliveries before the cancellation / before the duplicate call
	Arg   int
}

type c12Case struct {
	N      int
	Silent bool
	Ops    []c12Op
	Sched  sim.Schedule
	// NoSwitch disables the generator switch of known finding L20 (only set by its probe case).
	NoSwitch bool
}

func genC12(t *rapid.T) c12Case {
	var c c12Case
	c.N = rapid.IntRange(3, 4).Draw(t, "n")
	c.Silent = rapid.Bool().Draw(t, "silent")
	n := rapid.IntRange(2, 8).Draw(t, "nops")
	for i := 0; i < n; i++ {
		c.Ops = append(c.Ops, c12Op{
			Kind:  rapid.SampledFrom([]int{0, 1, 2, 2, 2, 3, 3, 4, 4, 5, 6, 7, 7, 8, 9, 9, 10, 11, 11, 12, 13, 13, 14, 15, 15, 16, 16, 17, 18, 18, 19, 19, 20, 21, 21, 22}).Draw(t, "kind"),
			Topic: rapid.IntRange(0, 1).Draw(t, "topic"),
			Who:   rapid.IntRange(0, 3).Draw(t, "who"),
			At:    rapid.IntRange(0, 40).Draw(t, "at"),
			Arg:   rapid.IntRange(0, 1000).Draw(t, "arg"),
		})
	}
	c.Sched = genSchedule(t, 300)
	return c
}

type c12Info struct {
	Attempts          []string
	Retries           int // attempts on a topic that was used by an earlier failed / cancelled attempt
	Overlaps          int
	LateDelivered     int
	Foreign           int
	HeldCallbacks     int
	LateDuringSession int
	StalledHandlers   int
	LateReturns       int
	DupDuringSetup    int
	L40Between        int
	LiveForeign       int // copies of live session frames under a non-participant's source, delivered while the session runs
	StartAllFirst     int // silent-mode repeats where the generator switch of known finding L20 was applied
}

const c12Timeout = 10 * time.Second

// known finding L20: in silent mode a finished topic stays "started" in the buffer, so frames that
// reach a node before it starts a repeated session on that topic are forwarded into the void.
const sigL20 = "C12/silent-repeat-topic/early-frame-dropped"

// known finding L40: protocol frames carry no session identifier, so frames of a finished session that arrive while the next
// session on the same topic runs are taken for that session's.
const sigL40 = "C12/late-frame-of-finished-session-had-effect"

func runC12(c c12Case) *vh.Outcome {
	o := &vh.Outcome{}
	info := &c12Info{}
	o.Info = info
	n := c.N
	parts := u16s(seq(1, n))
	outsider := uint16(n + 1)
	unknown := uint16(99)
	membership := identityMembership(n + 1)
	tape := &backends.Tape{}
	sessNonceOut := map[string]string{}
	var fail *vh.Failure
	avoidL20 := vh.KnownOpen(sigL20) && !c.NoSwitch && os.Getenv("VERIF_NO_SWITCH") == ""

	br := sim.Bubble(theT, func() {
		net := sim.NewNet()
		instance := map[uint16]int{}
		var gateNode uint16 // node whose next signer instance parks in its first SetShareData
		var gate chan struct{}
		var onMsgGateNode uint16 // node whose next signer instance parks in its first OnMsg (a slow handler)
		var onMsgGate chan struct{}
		tolerateBlocked := false
		var returnDelay time.Duration        // protocol instances created now take this long to return once their context has ended
		var holdBack func(f *sim.Frame) bool // deliveries that the driver must put aside for now (returns true = put aside)
		// hookNode/hookPoint/hookFire: the next protocol instance of hookNode calls hookFire when it reaches hookPoint
		// ("factory" | "init" | "setshare" | "run") - a cancellation in the middle of the orchestrator's set-up
		avoidL40 := vh.KnownOpen(sigL40) && !c.NoSwitch && os.Getenv("VERIF_NO_SWITCH") == ""
		// a history with op 18: every protocol instance emits payloads of its own (a nonce), like a protocol with fresh randomness.
		// (Under the switch of known finding L40 payloads stay the same in every session, and stale ones are then harmless.)
		freshPayloads := false
		for _, op := range c.Ops {
			if op.Kind == 18 && !avoidL40 {
				freshPayloads = true
			}
		}
		payloadsSeen := map[string]int{} // topic key -> number of the first attempt on it that emitted protocol payloads
		attemptNo := 0                   // counts runAttempt calls; the nonce of the instances created in it
		var nonceMu sync.Mutex
		sessNonce := sessNonceOut             // backend instance label -> its nonce
		lastData := map[string][]*sim.Frame{} // topic key -> the protocol payload frames (0xFF...) of the last attempt on it
		var hookNode uint16
		var hookPoint string
		var hookFire func()
		mk := func(node uint16, kind string) *backends.Rec {
			instance[node]++
			r := &backends.Rec{Node: node, Tape: tape, Script: backends.DefaultScript(), Session: fmt.Sprintf("%s#%d@%d", kind, instance[node], node)}
			r.ReturnDelay = returnDelay
			if freshPayloads {
				r.Nonce = fmt.Sprintf("#%d", attemptNo)
				nonceMu.Lock()
				sessNonce[r.Session] = r.Nonce
				nonceMu.Unlock()
			}
			if hookFire != nil && node == hookNode {
				fire := hookFire
				point := hookPoint
				hookFire = nil
				if point == "factory" {
					fire()
				} else {
					done := false
					r.Hook = func(p string) {
						if p == point && !done {
							done = true
							fire()
						}
					}
				}
			}
			if kind == "sign" && onMsgGate != nil && node == onMsgGateNode {
				r.OnMsgGate = onMsgGate
				onMsgGateNode = 0
			}
			if kind == "sign" && gate != nil && node == gateNode {
				r.Gate = gate
				gateNode = 0
			}
			return r
		}
		cl := stack.New(net, stack.Config{Membership: membership, Silent: c.Silent, Threshold: n - 1,
			KGF: func(node uint16) tss.KeyGenFactory {
				return func(id uint16) tss.KeyGenerator { r := mk(node, "dkg"); r.Party = id; return r }
			},
			SF: func(node uint16) tss.SignerFactory {
				return func(id uint16) tss.Signer { r := mk(node, "sign"); r.Party = id; return r }
			},
			Pick: func(uint16) func([]byte, int) []uint16 {
				return func([]byte, int) []uint16 { return append([]uint16(nil), parts...) }
			}})
		defer cl.StopAll()
		root, cancelRoot := context.WithCancel(context.Background())
		defer cancelRoot()
		for _, id := range parts {
			cl.Nodes[id].Party.SetStoredData([]byte(fmt.Sprintf("rec:%d", id)))
		}
		pos := 0
		usedTopics := map[string]string{} // topic -> outcome of the last attempt ("ok" | "failed")
		type running struct {
			call   *sim.Call
			node   uint16
			sess   string // expected Rec session label, known once the factory ran; matched by node + order
			marked bool
		}
		var recorded []*sim.Frame

		drain := func() bool {
			d := &sim.Driver{Net: net, Sched: &c.Sched, Pos: pos, DrainAfterDone: true, HardStop: 5 * time.Second}
			d.Run()
			pos = d.Pos
			if f := driverFailure("C12", d); f != nil {
				fail = f
				return false
			}
			return true
		}

		// runAttempt runs the given calls (with optional mid-run hook) to completion and drains.
		curKey := ""      // set by ops that want the attempt's payload frames remembered
		attemptStart := 0 // network log position at which the current attempt began
		skipDrain := false
		runAttempt := func(calls []*sim.Call, startAllFirst bool, hook func(d *sim.Driver)) bool {
			attemptStart = len(net.LogCopy())
			attemptNo++
			d := &sim.Driver{Net: net, Sched: &c.Sched, Pos: pos, DrainAfterDone: false, HardStop: c12Timeout + 5*time.Second, StartAllFirst: startAllFirst, Calls: calls, TolerateBlocked: tolerateBlocked}
			if hook != nil {
				d.AfterStep = func() { hook(d) }
			}
			d.BeforeDeliver = func(f *sim.Frame) bool { return holdBack == nil || !holdBack(f) }
			// note API returns on the tape so that late hand-offs can be told from in-session ones
			marked := map[*sim.Call]bool{}
			prev := d.AfterStep
			d.AfterStep = func() {
				if prev != nil {
					prev()
				}
				for _, cc := range d.Calls {
					if cc.IsDone() && !marked[cc] {
						marked[cc] = true
						tape.Mark("api-return", cc.Name)
					}
				}
			}
			d.Run()
			d.AfterStep()
			pos = d.Pos
			if f := driverFailure("C12", d); f != nil {
				fail = f
				return false
			}
			for _, cc := range d.Calls {
				if !cc.IsDone() {
					fail = vh.Failf("C12/hang", "%s has not returned %v after its deadline (ops %+v)", cc.Name, 5*time.Second, c.Ops)
					return false
				}
				if cc.Panic != "" {
					fail = vh.Failf("C12/panic", "%s panicked: %s", cc.Name, cc.Panic)
					return false
				}
			}
			recorded = net.LogCopy()
			emitted := false
			for _, f := range recorded[attemptStart:] {
				if f.MsgType == 2 && !f.Injected && len(f.Data) > 1 && f.Data[0] == 0xFF {
					emitted = true
				}
			}
			if emitted {
				for _, cc := range calls {
					if i, j := strings.Index(cc.Name, "("), strings.Index(cc.Name, ")"); i >= 0 && j > i {
						if _, ok := payloadsSeen[cc.Name[i+1:j]]; !ok {
							payloadsSeen[cc.Name[i+1:j]] = attemptNo
						}
					}
				}
			}
			if curKey != "" {
				var fs []*sim.Frame
				for _, f := range recorded[attemptStart:] {
					if f.MsgType == 2 && !f.Injected && len(f.Data) > 1 && f.Data[0] == 0xFF && int(f.To) <= n {
						fs = append(fs, f)
					}
				}
				lastData[curKey] = fs
			}
			if skipDrain {
				return true
			}
			return drain()
		}

		mkCalls := func(op string, topic string, who []uint16, ctxs map[uint16]context.Context) []*sim.Call {
			var calls []*sim.Call
			for _, id := range who {
				id := id
				ctx := ctxs[id]
				var cc *sim.Call
				if op == "keygen" {
					cc = cl.KeyGenCall(ctx, id, n, 2)
				} else {
					cc = cl.SignCall(ctx, id, []byte("0123456789abcdef0123456789abcdef"), topic)
				}
				cc.Name = fmt.Sprintf("%s(%s)@%d#%d", op, topic, id, len(info.Attempts))
				calls = append(calls, cc)
			}
			return calls
		}
		ctxFor := func(who []uint16) (map[uint16]context.Context, map[uint16]context.CancelFunc) {
			cs, cn := map[uint16]context.Context{}, map[uint16]context.CancelFunc{}
			for _, id := range who {
				cs[id], cn[id] = context.WithTimeout(root, c12Timeout)
			}
			return cs, cn
		}
		expectAllOK := func(what string, calls []*sim.Call, topicKey string, retry bool) bool {
			for _, cc := range calls {
				if cc.Err != nil {
					sig := "C12/complete-session-failed/" + what
					if retry {
						sig = "C12/retry-not-admitted/" + what
						if c.Silent && !avoidL20 {
							sig = sigL20
						}
					}
					if first, ok := payloadsSeen[topicKey]; freshPayloads && ok && first < attemptNo {
						// an earlier session on this topic emitted payloads that differ from this session's: whatever of them was
						// still buffered or in flight has been taken for this session's
						fail = vh.Failf(sigL40, "%s failed (%v) although all participants took part, nobody cancelled and every frame was delivered; an earlier session on this topic (outcome %q) had emitted protocol payloads, and frames carry no session identifier: what was still buffered or under way when this session started was taken for this session's (silent=%v; ops %+v)", cc.Name, cc.Err, usedTopics[topicKey], c.Silent, c.Ops)
						return false
					}
					fail = vh.Failf(sig, "%s failed although all participants took part, nobody cancelled and every frame was delivered: %v (previous outcome on this topic: %q; silent=%v; ops %+v)", cc.Name, cc.Err, usedTopics[topicKey], c.Silent, c.Ops)
					return false
				}
			}
			return true
		}

		// liveForeign: while the next attempt runs, about every third protocol frame of the session is followed by a copy
		// of itself under the source of the configured member that does not take part, or of an unknown node
		liveForeign := func(arg int) {
			k := 0
			net.Interpose = func(f *sim.Frame) []*sim.Frame {
				out := []*sim.Frame{f}
				k++
				if f.MsgType == 2 && int(f.To) <= n && (k+arg)%3 == 0 && info.LiveForeign < 200 {
					g := *f
					g.Injected = true
					g.From = outsider
					if (k+arg)%5 == 0 {
						g.From = unknown
					}
					out = append(out, &g)
					info.LiveForeign++
				}
				return out
			}
		}
		// lateReplay delivers frames of finished sessions while no session is running. They must have no effect - in
		// particular the nodes must not answer them: every frame that appears on the network afterwards is a residue
		lateReplay := func(k int, pick func(i int) *sim.Frame) bool {
			sentBefore := len(net.LogCopy())
			for i := 0; i < k; i++ {
				g := *pick(i)
				net.Inject(&g)
				info.LateDelivered++
			}
			if !drain() {
				return false
			}
			for _, f := range net.LogCopy()[sentBefore:] {
				if !f.Injected {
					fail = vh.Failf("C12/late-traffic-answered", "no session is running, yet node %d answered late traffic of a finished session with a frame of type %d to node %d (%d bytes): the finished session left a handler behind (attempts so far: %v)", f.From, f.MsgType, f.To, len(f.Data), info.Attempts)
					return false
				}
			}
			return true
		}
		for _, op := range c.Ops {
			topic := fmt.Sprintf("t%d", op.Topic)
			switch op.Kind {
			case 0, 1, 12: // keygen
				who := append([]uint16(nil), parts...)
				complete := op.Kind == 0 || op.Kind == 12
				if op.Kind == 12 {
					liveForeign(op.Arg)
				}
				if !complete {
					m := op.Who % n
					who = append(who[:m], who[m+1:]...)
				}
				key := "DKG"
				prev, used := usedTopics[key]
				if used && prev != "ok" {
					info.Retries++
				}
				saf := false
				if c.Silent && used && avoidL20 {
					saf = true
					info.StartAllFirst++
				}
				ctxs, cns := ctxFor(who)
				calls := mkCalls("keygen", "DKG", who, ctxs)
				info.Attempts = append(info.Attempts, fmt.Sprintf("keygen complete=%v", complete))
				ok := runAttempt(calls, saf, nil)
				net.Interpose = nil
				if !ok {
					return
				}
				for _, cn := range cns {
					cn()
				}
				if complete {
					if !expectAllOK("keygen", calls, key, used) {
						return
					}
					usedTopics[key] = "ok"
				} else {
					usedTopics[key] = "failed"
				}
			case 2, 3, 4, 11: // sign
				who := append([]uint16(nil), parts...)
				complete := op.Kind == 2 || op.Kind == 11
				if op.Kind == 11 {
					liveForeign(op.Arg)
				}
				if op.Kind == 3 {
					m := op.Who % n
					who = append(who[:m], who[m+1:]...)
				}
				prev, used := usedTopics[topic]
				if used && prev != "ok" {
					info.Retries++
				}
				saf := false
				if c.Silent && used && avoidL20 {
					saf = true
					info.StartAllFirst++
				}
				ctxs, cns := ctxFor(who)
				calls := mkCalls("sign", topic, who, ctxs)
				info.Attempts = append(info.Attempts, fmt.Sprintf("sign %s kind=%d", topic, op.Kind))
				var hook func(d *sim.Driver)
				if op.Kind == 4 {
					canceller := who[op.Who%len(who)]
					done := false
					hook = func(d *sim.Driver) {
						if !done && len(d.Delivered) >= op.At {
							done = true
							cns[canceller]()
						}
					}
				}
				ok := runAttempt(calls, saf, hook)
				net.Interpose = nil
				if !ok {
					return
				}
				for _, cn := range cns {
					cn()
				}
				if complete {
					if !expectAllOK("sign", calls, topic, used) {
						return
					}
					usedTopics[topic] = "ok"
				} else {
					usedTopics[topic] = "failed"
				}
			case 5: // two signs on different topics concurrently: both must complete
				info.Overlaps++
				tA, tB := "t0", "t1"
				ctxs, cns := ctxFor(parts)
				callsA := mkCalls("sign", tA, parts, ctxs)
				callsB := mkCalls("sign", tB, parts, ctxs)
				usedA, usedB := usedTopics[tA] != "", usedTopics[tB] != ""
				saf := false
				if c.Silent && (usedA || usedB) && avoidL20 {
					saf = true
					info.StartAllFirst++
				}
				info.Attempts = append(info.Attempts, "two signs concurrently")
				if !runAttempt(append(callsA, callsB...), saf, nil) {
					return
				}
				for _, cn := range cns {
					cn()
				}
				if !expectAllOK("concurrent-sign", callsA, tA, usedA) || !expectAllOK("concurrent-sign", callsB, tB, usedB) {
					return
				}
				usedTopics[tA], usedTopics[tB] = "ok", "ok"
			case 19: // a sign on t0 in which one node's handler stalls (its signer parks in OnMsg); meanwhile a sign on t1 by everybody
				// must run to completion ("concurrent sessions on different topics do not influence each other"); then the
				// handler is released and the first sign completes as well
				info.Overlaps++
				tA, tB := "t0", "t1"
				usedA, usedB := usedTopics[tA] != "", usedTopics[tB] != ""
				saf := false
				if c.Silent && (usedA || usedB) && avoidL20 {
					saf = true
					info.StartAllFirst++
				}
				victim := parts[op.Who%n]
				onMsgGate = make(chan struct{})
				onMsgGateNode = victim
				tolerateBlocked = true
				ctxs, cns := ctxFor(parts)
				callsA := mkCalls("sign", tA, parts, ctxs)
				var callsB []*sim.Call
				stage := 0
				// While the handler is parked it holds the session's own broadcast lock, so further protocol frames of THAT session
				// for the victim would wait for a mutex - legitimately, but a goroutine waiting for a mutex wedges the virtual
				// clock. The driver therefore puts those frames aside and hands them back, in order, when the handler is released.
				logStart := len(net.LogCopy())
				tapeStart := len(tape.Snapshot())
				topicsA := map[string]bool{}
				var aside []*sim.Frame
				holdBack = func(f *sim.Frame) bool {
					if os.Getenv("VERIF_DEBUG") != "" && f.MsgType == 2 {
						fmt.Fprintf(os.Stderr, "  deliver stage=%d %d->%d topicA=%v len=%d first=%x\n", stage, f.From, f.To, topicsA[string(f.Topic)], len(f.Data), f.Data[:1])
					}
					if stage == 1 && f.To == victim && f.MsgType == 2 && topicsA[string(f.Topic)] {
						aside = append(aside, f)
						return true
					}
					return false
				}
				release := func() {
					net.PushFront(aside)
					aside = nil
					close(onMsgGate)
				}
				hook := func(d *sim.Driver) {
					switch stage {
					case 0:
						for _, e := range tape.Snapshot()[tapeStart:] {
							if e.Kind == "onmsg-parked" && e.Node == victim && stage == 0 {
								stage = 1
								info.StalledHandlers++
								for _, f := range net.LogCopy()[logStart:] {
									if f.MsgType == 2 {
										topicsA[string(f.Topic)] = true
									}
								}
								callsB = mkCalls("sign", tB, parts, ctxs)
								for _, cb := range callsB {
									d.Calls = append(d.Calls, cb)
									d.StartCall(cb)
								}
							}
						}
					case 1:
						all := true
						for _, cb := range callsB {
							if !cb.IsDone() {
								all = false
							}
						}
						if all {
							stage = 2
							release()
						}
					}
				}
				info.Attempts = append(info.Attempts, fmt.Sprintf("sign on t0 with a stalled handler at node %d, sign on t1 meanwhile", victim))
				ok := runAttempt(callsA, saf, hook)
				if stage < 2 {
					release()
				}
				holdBack = nil
				onMsgGate = nil
				onMsgGateNode = 0
				tolerateBlocked = false
				for _, cn := range cns {
					cn()
				}
				if !ok {
					return
				}
				if stage == 0 {
					// the victim's signer never received anything (cannot happen with everybody taking part)
					if !expectAllOK("sign", callsA, tA, usedA) {
						return
					}
					usedTopics[tA] = "ok"
					continue
				}
				for _, cb := range callsB {
					if cb.Err != nil || !cb.IsDone() {
						fail = vh.Failf("C12/stalled-handler-of-other-topic", "Sign on %s by all (%s) failed: %v - while it ran, the handler of node %d for the session on %s was stalled inside the backend's OnMsg; a session on another topic must not be affected (silent=%v)", tB, cb.Name, cb.Err, victim, tA, c.Silent)
						return
					}
				}
				if !expectAllOK("sign-with-stalled-handler", callsA, tA, usedA) {
					return
				}
				usedTopics[tA], usedTopics[tB] = "ok", "ok"
			case 6: // duplicate sign on the same topic while the first one runs
				info.Overlaps++
				_, used := usedTopics[topic]
				saf := false
				if c.Silent && used && avoidL20 {
					saf = true
					info.StartAllFirst++
				}
				ctxs, cns := ctxFor(parts)
				calls := mkCalls("sign", topic, parts, ctxs)
				dupNode := parts[op.Who%n]
				var dup *sim.Call
				started := false
				hook := func(d *sim.Driver) {
					if started || len(d.Delivered) < op.At {
						return
					}
					// only while the first call of that node is still running
					for i, id := range parts {
						if id == dupNode && calls[i].Started && !calls[i].IsDone() {
							started = true
							dup = cl.SignCall(ctxs[id], id, []byte("another-digest-another-digest-32"), topic)
							dup.Name = fmt.Sprintf("duplicate-sign(%s)@%d", topic, id)
							d.StartCall(dup)
						}
					}
				}
				info.Attempts = append(info.Attempts, "sign with concurrent duplicate on "+topic)
				if !runAttempt(calls, saf, hook) {
					return
				}
				for _, cn := range cns {
					cn()
				}
				if dup != nil {
					if !dup.IsDone() {
						fail = vh.Failf("C12/duplicate-not-refused", "a second Sign on topic %s while the first was running did not return", topic)
						return
					}
					if dup.Err == nil {
						fail = vh.Failf("C12/duplicate-not-refused", "a second Sign on topic %s on node %d while the first was still running was not refused", topic, dupNode)
						return
					}
					if dup.ReturnedAt-dup.StartedAt > time.Second {
						fail = vh.Failf("C12/duplicate-not-refused", "a second Sign on topic %s was refused only after %v", topic, dup.ReturnedAt-dup.StartedAt)
						return
					}
				}
				if !expectAllOK("sign-with-duplicate", calls, topic, used) {
					return
				}
				usedTopics[topic] = "ok"
			case 9: // sign cancelled while the signer of one node is still being prepared (after the first barrier)
				_, used := usedTopics[topic]
				saf := false
				if c.Silent && used && avoidL20 {
					saf = true
					info.StartAllFirst++
				}
				victim := parts[op.Who%n]
				gate = make(chan struct{})
				gateNode = victim
				ctxs, cns := ctxFor(parts)
				calls := mkCalls("sign", topic, parts, ctxs)
				stage := 0
				tapeStart := len(tape.Snapshot())
				hook := func(d *sim.Driver) {
					switch stage {
					case 0:
						for _, e := range tape.Snapshot()[tapeStart:] {
							if e.Kind == "setshare-parked" && e.Node == victim && stage == 0 {
								stage = 1
								cns[victim]() // Sign of the victim returns while its signer is still being prepared
							}
						}
					case 1:
						for i, id := range parts {
							if id == victim && calls[i].IsDone() {
								stage = 2
								close(gate) // the preparation carries on in the background
							}
						}
					}
				}
				info.Attempts = append(info.Attempts, "sign cancelled during signer preparation on "+topic)
				info.Overlaps++
				if !runAttempt(calls, saf, hook) {
					return
				}
				if stage < 2 {
					select {
					case <-gate:
					default:
						close(gate)
					}
				}
				gate = nil
				for _, cn := range cns {
					cn()
				}
				if !drain() {
					return
				}
				usedTopics[topic] = "failed"
			case 10: // key generation with two extra KeyGen calls on one node while it is running
				key := "DKG"
				_, used := usedTopics[key]
				saf := false
				if c.Silent && used && avoidL20 {
					saf = true
					info.StartAllFirst++
				}
				ctxs, cns := ctxFor(parts)
				calls := mkCalls("keygen", "DKG", parts, ctxs)
				dupNode := parts[op.Who%n]
				var dups []*sim.Call
				hook := func(d *sim.Driver) {
					if len(d.Delivered) < op.At%12 {
						return
					}
					for i, id := range parts {
						if id != dupNode || !calls[i].Started || calls[i].IsDone() {
							continue
						}
						if len(dups) == 0 || (len(dups) == 1 && dups[0].IsDone()) {
							dc := cl.KeyGenCall(ctxs[id], id, n, 2)
							dc.Name = fmt.Sprintf("duplicate-keygen-%d@%d", len(dups)+1, id)
							dups = append(dups, dc)
							d.StartCall(dc)
						}
					}
				}
				info.Attempts = append(info.Attempts, "keygen with concurrent duplicates")
				info.Overlaps++
				if !runAttempt(calls, saf, hook) {
					return
				}
				for _, cn := range cns {
					cn()
				}
				for _, dc := range dups {
					if !dc.IsDone() || dc.Panic != "" || dc.Err == nil {
						fail = vh.Failf("C12/duplicate-not-refused/keygen", "%s while a key generation was running on that node was not refused with an error (done=%v err=%v panic=%q)", dc.Name, dc.IsDone(), dc.Err, dc.Panic)
						return
					}
				}
				if !expectAllOK("keygen-with-duplicates", calls, key, used) {
					return
				}
				usedTopics[key] = "ok"
			case 20: // key generation by all; on one node a second KeyGen is called while the first is in the middle of its set-up
				// (inside the protocol-instance factory, i.e. after the "already running" test and before the handlers are
				// registered): it must be refused with an error at once, and the first one completes
				key := "DKG"
				_, used := usedTopics[key]
				saf := false
				if c.Silent && used && avoidL20 {
					saf = true
					info.StartAllFirst++
				}
				ctxs, cns := ctxFor(parts)
				calls := mkCalls("keygen", key, parts, ctxs)
				victim := parts[op.Who%n]
				dup := cl.KeyGenCall(ctxs[victim], victim, n, 2)
				dup.Name = fmt.Sprintf("duplicate-keygen-during-setup@%d", victim)
				hookNode = victim
				hookPoint = "factory"
				hookFire = func() {
					// the first call carries on as soon as the duplicate has returned (refused: no virtual time passes), or after a
					// virtual millisecond if the duplicate was admitted and is now running
					select {
					case <-dup.Go():
					case <-time.After(time.Millisecond):
					}
				}
				info.Attempts = append(info.Attempts, fmt.Sprintf("keygen with a second KeyGen on node %d during the set-up of the first", victim))
				info.Overlaps++
				ok := runAttempt(calls, saf, nil)
				hookFire = nil
				for _, cn := range cns {
					cn()
				}
				if !ok {
					return
				}
				if dup.Started {
					info.DupDuringSetup++
					if !dup.IsDone() || dup.Panic != "" || dup.Err == nil {
						fail = vh.Failf("C12/duplicate-not-refused/keygen-during-setup", "%s: a second KeyGen called while the first was setting up its session (after its \"already running\" test, before its handlers were registered) was not refused with an error (done=%v err=%v panic=%q)", dup.Name, dup.IsDone(), dup.Err, dup.Panic)
						return
					}
				}
				if !expectAllOK("keygen-with-duplicate-during-setup", calls, key, used) {
					return
				}
				usedTopics[key] = "ok"
			case 21, 22: // signing (21) / key generation (22) by all in which every context ends while the protocol runs, with protocol
				// instances that take 700 ms to come back after that (the API calls return at once); the next attempt on the same
				// topic starts immediately - "after KeyGen or Sign returns, successfully or not, the party retains no state for
				// that session: a later Sign on the same topic (or a later KeyGen) is admitted and can succeed"
				isKG := op.Kind == 22
				key, opName := topic, "sign"
				if isKG {
					key, opName = "DKG", "keygen"
				}
				for attempt := 0; attempt < 2; attempt++ {
					_, used := usedTopics[key]
					saf := false
					if c.Silent && used && avoidL20 {
						saf = true
						info.StartAllFirst++
					}
					ctxs, cns := ctxFor(parts)
					calls := mkCalls(opName, key, parts, ctxs)
					var hook func(d *sim.Driver)
					if attempt == 0 {
						returnDelay = 700 * time.Millisecond
						tapeStart := len(tape.Snapshot())
						cancelled := false
						hook = func(d *sim.Driver) {
							if cancelled {
								return
							}
							running := 0
							for _, e := range tape.Snapshot()[tapeStart:] {
								if e.Kind == "emit" {
									running++
								}
							}
							if running > op.At%4 {
								cancelled = true
								info.LateReturns++
								for _, cn := range cns {
									cn()
								}
							}
						}
						info.Attempts = append(info.Attempts, opName+" on "+key+" cancelled everywhere while the protocol runs; instances return 700ms later")
					} else {
						info.Attempts = append(info.Attempts, opName+" on "+key+" again at once")
						info.Retries++
					}
					skipDrain = attempt == 0 // the next attempt starts at once: no frame is delivered, no time passes in between
					ok := runAttempt(calls, saf, hook)
					skipDrain = false
					returnDelay = 0
					if attempt == 1 {
						for _, cn := range cns {
							cn()
						}
					}
					if !ok {
						return
					}
					if attempt == 0 {
						usedTopics[key] = "failed"
						continue
					}
					if !expectAllOK(opName+"-right-after-cancelled-attempt-with-late-returning-instances", calls, key, true) {
						return
					}
					usedTopics[key] = "ok"
					if !drain() {
						return
					}
				}
			case 13, 14: // key generation (13) / signing (14) in which one node's context ends in the middle of the orchestrator's
				// set-up of its protocol instance; the attempt fails, the next attempt on the topic must be admitted and succeed
				isKG := op.Kind == 13
				key := topic
				opName := "sign"
				if isKG {
					key, opName = "DKG", "keygen"
				}
				_, used := usedTopics[key]
				saf := false
				if c.Silent && used && avoidL20 {
					saf = true
					info.StartAllFirst++
				}
				ctxs, cns := ctxFor(parts)
				calls := mkCalls(opName, key, parts, ctxs)
				victim := parts[op.Who%n]
				hookNode = victim
				hookPoint = []string{"factory", "init", "run", "setshare"}[op.Arg%4]
				if isKG && hookPoint == "setshare" {
					hookPoint = "factory"
				}
				hookFire = cns[victim]
				info.Attempts = append(info.Attempts, fmt.Sprintf("%s with the context of node %d ending at %s of its instance", opName, victim, hookPoint))
				info.Retries++
				ok := runAttempt(calls, saf, nil)
				hookFire = nil
				if !ok {
					return
				}
				for _, cn := range cns {
					cn()
				}
				if !drain() {
					return
				}
				usedTopics[key] = "failed"
			case 16, 17: // a complete Sign (16) / KeyGen (17) in which ONE node's callback goroutine is held right after it has pushed its
				// result (verif yield point), so the API call returns while that goroutine still has its clean-up ahead; the next
				// complete attempt on the same topic starts, and only then the held goroutine carries on
				isKG := op.Kind == 17
				key, opName, point := topic, "sign", "Sign:callback:result-pushed"
				if isKG {
					key, opName, point = "DKG", "keygen", "KeyGen:callback:result-pushed"
				}
				var hookMu sync.Mutex
				armed, released := true, false
				release := make(chan struct{})
				threshold.VerifYield = func(p string) {
					if p != point {
						return
					}
					hookMu.Lock()
					if !armed {
						hookMu.Unlock()
						return
					}
					armed = false
					hookMu.Unlock()
					info.HeldCallbacks++
					<-release
				}
				letGo := func() {
					hookMu.Lock()
					armed = false
					if !released {
						released = true
						close(release)
					}
					hookMu.Unlock()
				}
				for attempt := 0; attempt < 2; attempt++ {
					_, used := usedTopics[key]
					saf := false
					if c.Silent && used && avoidL20 {
						saf = true
						info.StartAllFirst++
					}
					ctxs, cns := ctxFor(parts)
					calls := mkCalls(opName, key, parts, ctxs)
					info.Attempts = append(info.Attempts, fmt.Sprintf("%s %s, attempt %d around a held callback", opName, key, attempt+1))
					var hook func(d *sim.Driver)
					if attempt == 1 {
						info.Retries++
						at := 2 + (op.At*3)%120
						hook = func(d *sim.Driver) {
							if d.Steps >= at {
								letGo()
							}
						}
					}
					ok := runAttempt(calls, saf, hook)
					if attempt == 1 {
						letGo()
					}
					for _, cn := range cns {
						cn()
					}
					if !ok {
						letGo()
						threshold.VerifYield = nil
						return
					}
					if !expectAllOK(opName+"-around-held-callback", calls, key, attempt == 1) {
						letGo()
						threshold.VerifYield = nil
						return
					}
					usedTopics[key] = "ok"
				}
				threshold.VerifYield = nil
				if !drain() {
					return
				}
			case 18: // a key generation by all, then another one WHILE (copies of) the protocol payloads of the finished one arrive late -
				// before the fresh ones. "Messages arriving late for the finished session have no effect."
				key := "DKG"
				for attempt := 0; attempt < 2; attempt++ {
					who := append([]uint16(nil), parts...)
					_, used := usedTopics[key]
					saf := false
					if c.Silent && used && avoidL20 {
						saf = true
						info.StartAllFirst++
					}
					ctxs, cns := ctxFor(who)
					calls := mkCalls("keygen", key, who, ctxs)
					info.Attempts = append(info.Attempts, fmt.Sprintf("keygen attempt %d of the late-payload pair", attempt+1))
					stale := lastData[key]
					curKey = key
					if attempt == 1 {
						info.Retries++
						if avoidL40 {
							// known finding L40: the late copies are delivered before the next session starts
							info.L40Between++
							k := 0
							if !lateReplay(len(stale), func(int) *sim.Frame { k++; return stale[k-1] }) {
								return
							}
							stale = nil
						} else {
							// on every link the late copies arrive right before the first payload of the new session
							byLink := map[sim.Link][]*sim.Frame{}
							for _, f := range stale {
								l := sim.Link{From: f.From, To: f.To}
								byLink[l] = append(byLink[l], f)
							}
							net.Interpose = func(f *sim.Frame) []*sim.Frame {
								l := sim.Link{From: f.From, To: f.To}
								if f.MsgType != 2 || len(f.Data) < 2 || f.Data[0] != 0xFF || len(byLink[l]) == 0 {
									return []*sim.Frame{f}
								}
								var out []*sim.Frame
								for _, old := range byLink[l] {
									g := *old
									g.Injected = true
									out = append(out, &g)
									info.LateDuringSession++
								}
								delete(byLink, l)
								return append(out, f)
							}
						}
					}
					ok := runAttempt(calls, saf, nil)
					curKey = ""
					net.Interpose = nil
					for _, cn := range cns {
						cn()
					}
					if !ok {
						return
					}
					if attempt == 0 {
						if !expectAllOK("keygen", calls, key, true) {
							return
						}
						usedTopics[key] = "ok"
						continue
					}
					for _, cc := range calls {
						if cc.Err != nil && len(stale) > 0 {
							fail = vh.Failf(sigL40, "%s failed (%v) although all participants took part and every frame was delivered: %d protocol payloads of the previous, finished key generation arrived late (duplicated), while this one was running, and were taken for this session's (the wire format carries no session identifier) - silent=%v", cc.Name, cc.Err, len(stale), c.Silent)
							return
						}
					}
					if !expectAllOK("keygen-after-late-payloads", calls, key, true) {
						return
					}
					usedTopics[key] = "ok"
				}
			case 7: // replay recorded frames of earlier sessions (late / duplicated traffic)
				if len(recorded) == 0 {
					continue
				}
				if !lateReplay(1+op.Arg%6, func(i int) *sim.Frame { return recorded[(op.Arg*7+i*13)%len(recorded)] }) {
					return
				}
			case 15: // signing in which one signer is cut off once the signers are agreed: the attempt fails at its SECOND barrier;
				// afterwards the synchroniser traffic of the dead session is replayed to every node (as queries, too)
				_, used := usedTopics[topic]
				saf := false
				if c.Silent && used && avoidL20 {
					saf = true
					info.StartAllFirst++
				}
				victim := parts[op.Who%n]
				ctxs, cns := ctxFor(parts)
				calls := mkCalls("sign", topic, parts, ctxs)
				cut := false
				start := len(tape.Snapshot())
				net.Interpose = func(f *sim.Frame) []*sim.Frame {
					if cut && (f.From == victim || f.To == victim) {
						return nil
					}
					return []*sim.Frame{f}
				}
				hook := func(d *sim.Driver) {
					if cut {
						return
					}
					for _, e := range tape.Snapshot()[start:] {
						if e.Kind == "init" && e.Node != victim {
							cut = true // some node has prepared its signing instance: the first barrier is behind it
						}
					}
				}
				info.Attempts = append(info.Attempts, fmt.Sprintf("sign %s with node %d cut off after the first barrier", topic, victim))
				info.Retries++
				before := len(net.LogCopy())
				ok := runAttempt(calls, saf, hook)
				net.Interpose = nil
				if !ok {
					return
				}
				for _, cn := range cns {
					cn()
				}
				if !drain() {
					return
				}
				usedTopics[topic] = "failed"
				var syncs []*sim.Frame
				for _, f := range net.LogCopy()[before:] {
					if f.MsgType == 1 && !f.Injected && int(f.To) <= n {
						syncs = append(syncs, f)
					}
				}
				if len(syncs) > 0 {
					if !lateReplay(min(len(syncs), 24), func(i int) *sim.Frame {
						g := *syncs[(i*5+op.Arg)%len(syncs)]
						if len(g.Data) > 0 && i%2 == 1 {
							g.Data = append([]byte{2}, g.Data[1:]...) // the same frame as a query
						}
						return &g
					}) {
						return
					}
				}
			case 8: // frames from a configured non-participant and from an unknown node
				if len(recorded) == 0 {
					continue
				}
				for i := 0; i < 1+op.Arg%4; i++ {
					f := recorded[(op.Arg*3+i*11)%len(recorded)]
					g := *f
					g.From = outsider
					if (op.Arg+i)%2 == 0 {
						g.From = unknown
					}
					net.Inject(&g)
					info.Foreign++
				}
				if !drain() {
					return
				}
			}
		}
		cancelRoot()
		cl.StopAll()
		time.Sleep(time.Minute)
	})
	if br.Panic != "" {
		o.Fail = vh.Failf("C12/harness-panic", "%s", br.Panic)
		return o
	}
	o.Key = fmt.Sprintf("%+v", c)
	o.NonTrivial = info.LateDuringSession > 0 || info.Retries > 0 || info.Overlaps > 0 || info.LateDelivered > 0 || info.Foreign > 0 || info.LiveForeign > 0
	if info.LiveForeign > 0 {
		o.Classes = append(o.Classes, "foreign-frames-during-session")
	}
	o.Classes = append(o.Classes, fmt.Sprintf("silent=%v", c.Silent))
	if info.Retries > 0 {
		o.Classes = append(o.Classes, "retry-after-failed-attempt")
	}
	if info.Overlaps > 0 {
		o.Classes = append(o.Classes, "overlapping-sessions")
	}
	if info.LateDelivered > 0 {
		o.Classes = append(o.Classes, "late-frames-replayed")
	}
	if info.DupDuringSetup > 0 {
		o.Classes = append(o.Classes, "duplicate-keygen-during-setup")
	}
	if info.LateReturns > 0 {
		o.Classes = append(o.Classes, "retry-while-old-instances-still-returning")
	}
	if info.StalledHandlers > 0 {
		o.Classes = append(o.Classes, "stalled-handler-while-other-topic-runs")
	}
	if info.LateDuringSession > 0 {
		o.Classes = append(o.Classes, "payloads-of-failed-attempt-arrive-during-retry")
	}
	if os.Getenv("VERIF_DEBUG") != "" {
		fmt.Fprintf(os.Stderr, "C12 debug: %+v\n", info)
		for _, e := range tape.Snapshot() {
			fmt.Fprintf(os.Stderr, "  tape %d %s node=%d sess=%s from=%d to=%d bc=%v %q\n", e.Seq, e.Kind, e.Node, e.Session, e.From, e.To, e.Bcast, e.Payload)
		}
	}
	if info.Foreign > 0 {
		o.Classes = append(o.Classes, "foreign-frames")
	}
	if info.L40Between > 0 {
		o.Classes = append(o.Classes, "excluded-by-known-finding-L40(late-payloads-between-sessions)")
	}
	if info.StartAllFirst > 0 {
		o.Classes = append(o.Classes, "excluded-by-known-finding-L20(start-all-first)")
	}
	if fail != nil {
		o.Fail = fail
		return o
	}
	// tape oracles: no hand-off after the API call of that instance returned; no hand-off from a non-participant
	returnedAt := map[string]int{} // "<kind>@<node>#<attempt>" is the call name; map node+attempt order instead
	_ = returnedAt
	events := tape.Snapshot()
	sessNonceOf := sessNonceOut
	// per node: session instances in creation order, API returns in order
	type inst struct {
		label string
		ret   int // tape seq of the API return (-1 = not yet)
	}
	for _, e := range events {
		if e.Kind == "onmsg" {
			if int(e.From) < 1 || int(e.From) > n {
				o.Fail = vh.Failf("C12/foreign-reached-backend", "backend instance %s was handed a message attributed to %d which is not a participant (participants 1..%d)", e.Session, e.From, n)
				return o
			}
		}
	}
	// a protocol instance is only handed payloads of its own session (only decidable when instances emit payloads of their own)
	for _, e := range events {
		if e.Kind != "onmsg" || len(sessNonceOf) == 0 {
			continue
		}
		want := sessNonceOf[e.Session]
		body := string(e.Payload)
		if i := strings.Index(body, "#"); want != "" && i >= 0 {
			got := body[i:]
			if j := strings.Index(got, ";"); j >= 0 {
				got = got[:j]
			}
			if got != want {
				o.Fail = vh.Failf(sigL40, "backend instance %s (session %s) was handed a payload of an earlier, finished session on the same topic (%s, from %d): %q - frames carry no session identifier, so a late (duplicated) frame of a finished session is taken for the running one's", e.Session, want, got, e.From, body)
				return o
			}
		}
	}
	// late hand-offs: an onmsg for instance X after the mark of the API call that created X.
	// Instances are matched to API calls per node in order of creation (both are sequential per node
	// except for the refused duplicate, which creates no instance that receives traffic).
	lateFail := lateHandoff(events)
	if lateFail != nil {
		o.Fail = lateFail
	}
	return o
}

// lateHandoff finds a hand-off to a backend instance after the Rec instance
// itself returned AND a later API return mark of the same node was recorded.
func lateHandoff(events []backends.Event) *vh.Failure {
	// seq of the "return" event of each instance
	ret := map[string]int{}
	for _, e := range events {
		if e.Kind == "return" {
			ret[e.Session] = e.Seq
		}
	}
	// first api-return mark after the instance's own return, on the same node
	for _, e := range events {
		if e.Kind != "onmsg" {
			continue
		}
		r, ok := ret[e.Session]
		if !ok || e.Seq < r {
			continue
		}
		// was there an API return of this node between the instance's return and this hand-off?
		for _, m := range events {
			if m.Kind == "api-return" && m.Seq > r && m.Seq < e.Seq && markNode(m.Session) == e.Node {
				return vh.Failf("C12/late-handoff", "backend instance %s of node %d was handed a message (from %d) after the session's API call had returned", e.Session, e.Node, e.From)
			}
		}
	}
	return nil
}

func markNode(name string) uint16 {
	// call names look like "sign(t0)@3#5"
	var node int
	for i := 0; i < len(name); i++ {
		if name[i] == '@' {
			fmt.Sscanf(name[i+1:], "%d", &node)
		}
	}
	return uint16(node)
}

func TestC12(t *testing.T) {
	theT = t
	vh.Prop[c12Case]{ID: "C12", Test: "TestC12", Gen: genC12, Run: runC12,
		Sample: func(c c12Case, o *vh.Outcome) interface{} {
			return map[string]interface{}{"n": c.N, "silent": c.Silent, "ops": c.Ops, "info": o.Info}
		}}.Main(t)
}
