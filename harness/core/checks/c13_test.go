package checks

import (
	"bytes"
	"context"
	"fmt"
	"sort"
	"strings"
	"testing"
	"time"

	"github.com/IBM/TSS/mpc/bls"
	"github.com/IBM/TSS/mpc/ps"
	tss "github.com/IBM/TSS/types"
	math "github.com/IBM/mathlib"
	"pgregory.net/rapid"

	"verif/core/backends"
	"verif/core/sim"
	"verif/core/stack"
	"verif/vh"
)

// C13: every 16-bit identifier, round and digest survives the wire encodings
// (DESIGN.md §3 C13).

// --- (a) synchronisation-only sessions over identifier tuples ------------------

func c13SyncCase(ids []int) c07Case {
	c := c07Case{Universe: ids, Expected: len(ids), Topics: 1, ProbeMs: 200}
	for i := range ids {
		c.Honest = append(c.Honest, i)
		c.StartLag = append(c.StartLag, 0)
	}
	return c
}

func TestC13Sync(t *testing.T) {
	theT = t
	p := vh.Prop[c07Case]{ID: "C13", Test: "TestC13Sync", Run: func(c c07Case) *vh.Outcome {
		o := runC07(c)
		if o.Fail != nil {
			o.Fail.Signature = "C13/sync/" + o.Fail.Signature
		}
		big := false
		for _, id := range c.Universe {
			if id > 255 {
				big = true
			}
		}
		o.NonTrivial = big
		o.Key = fmt.Sprint(c.Universe)
		return o
	}, Sample: func(c c07Case, o *vh.Outcome) interface{} { return map[string]interface{}{"ids": c.Universe} }}
	if vh.EnvStr("VERIF_REPLAY_IN") != "" {
		p.Main(t)
		return
	}
	st := vh.NewStats("C13", "TestC13Sync")
	defer st.Flush()
	shard, shards := vh.EnvInt("VERIF_SHARD", 0), vh.EnvInt("VERIF_SHARDS", 1)
	ids := append([]int(nil), boundaryIDs...)
	sort.Ints(ids)
	idx := 0
	tripleStride := 1
	complete := true
	p.Enumerate(t, st, func(yield func(c07Case) bool) {
		for i := 0; i < len(ids); i++ {
			for j := i + 1; j < len(ids); j++ {
				idx++
				if idx%shards == shard%shards {
					if !yield(c13SyncCase([]int{ids[i], ids[j]})) {
						complete = false
						return
					}
				}
			}
		}
		k := 0
		for i := 0; i < len(ids); i++ {
			for j := i + 1; j < len(ids); j++ {
				for l := j + 1; l < len(ids); l++ {
					k++
					if k%tripleStride != 0 {
						continue
					}
					idx++
					if idx%shards == shard%shards {
						if !yield(c13SyncCase([]int{ids[i], ids[j], ids[l]})) {
							complete = false
							return
						}
					}
				}
			}
		}
		if vh.Thorough() { // all 4-tuples
			for i := 0; i < len(ids); i++ {
				for j := i + 1; j < len(ids); j++ {
					for l := j + 1; l < len(ids); l++ {
						for m := l + 1; m < len(ids); m++ {
							idx++
							if idx%shards == shard%shards {
								if !yield(c13SyncCase([]int{ids[i], ids[j], ids[l], ids[m]})) {
									complete = false
									return
								}
							}
						}
					}
				}
			}
		}
	})
	st.SetExhaustive(complete)
	st.Note("TestC13Sync: all pairs and all triples (thorough: and all 4-tuples) over the %d boundary identifiers %v", len(ids), ids)
}

// --- (b) full-stack sessions with large identifiers and a differential twin -----

type c13Case struct {
	IDs     []int
	Silent  bool
	Backend string // rec | bls | ps
	Op      string // keygen | sign (rec)
	Rounds  []int  // rec: distinct rounds 0..127, one broadcast each
	P2P     []bool
	Sched   sim.Schedule
}

func genC13(t *rapid.T) c13Case {
	var c c13Case
	n := rapid.IntRange(2, 5).Draw(t, "n")
	seen := map[int]bool{}
	for len(c.IDs) < n {
		id := genID(t, "id")
		if !seen[id] {
			seen[id] = true
			c.IDs = append(c.IDs, id)
		}
	}
	sort.Ints(c.IDs)
	c.Silent = rapid.Bool().Draw(t, "silent")
	c.Backend = rapid.SampledFrom([]string{"rec", "rec", "rec", "bls", "ps"}).Draw(t, "backend")
	c.Op = "keygen"
	if c.Backend == "rec" && rapid.Bool().Draw(t, "sign") {
		c.Op = "sign"
	}
	if c.Backend == "ps" && n > 3 {
		c.IDs = c.IDs[:3]
	}
	nr := rapid.IntRange(1, 4).Draw(t, "nrounds")
	rs := map[int]bool{}
	for len(c.Rounds) < nr {
		r := rapid.SampledFrom([]int{0, 1, 2, 3, 63, 64, 126, 127, rapid.IntRange(0, 127).Draw(t, "rr")}).Draw(t, "round")
		if !rs[r] {
			rs[r] = true
			c.Rounds = append(c.Rounds, r)
			c.P2P = append(c.P2P, rapid.Bool().Draw(t, "p2p"))
		}
	}
	c.Sched = genSchedule(t, 300)
	return c
}

type c13Run struct {
	OK     bool
	Errs   []string
	Handed []string // canonical (renamed) multiset of hand-offs
	Shares [][]byte
	Panic  string
}

// c13Execute runs the session with the given identifiers; rename maps ids to
// positions so that runs can be compared.
func c13Execute(c c13Case, ids []int) (*c13Run, *vh.Failure) {
	r := &c13Run{}
	all := u16s(ids)
	pos := map[uint16]int{}
	for i, id := range all {
		pos[id] = i + 1
	}
	var fail *vh.Failure
	tape := &backends.Tape{}
	br := sim.Bubble(theT, func() {
		net := sim.NewNet()
		membership := map[uint16]uint16{}
		for _, id := range all {
			membership[id] = id
		}
		var script []backends.Phase
		for i, rd := range c.Rounds {
			script = append(script, backends.Phase{Round: uint8(rd), Bcasts: 1, P2P: c.P2P[i]})
		}
		var kgf func(uint16) tss.KeyGenFactory
		var sf func(uint16) tss.SignerFactory
		switch c.Backend {
		case "rec":
			kgf = func(node uint16) tss.KeyGenFactory {
				return func(id uint16) tss.KeyGenerator {
					sc := script
					if c.Op == "sign" {
						sc = backends.DefaultScript()
					}
					return &backends.Rec{Node: node, Party: id, Tape: tape, Script: sc, Session: "dkg"}
				}
			}
			sf = func(node uint16) tss.SignerFactory {
				return func(id uint16) tss.Signer {
					return &backends.Rec{Node: node, Party: id, Tape: tape, Script: script, Session: "sign"}
				}
			}
		default:
			kgf, sf = c11Factories(c.Backend, all, 2, tape)
		}
		cl := stack.New(net, stack.Config{Membership: membership, Silent: c.Silent, Threshold: len(all) - 1, KGF: kgf, SF: sf,
			Pick: func(uint16) func([]byte, int) []uint16 {
				return func([]byte, int) []uint16 { return append([]uint16(nil), all...) }
			}})
		defer cl.StopAll()
		ctx, cancel := context.WithTimeout(context.Background(), 60*time.Second)
		defer cancel()
		run := func(op string, sched *sim.Schedule) []*sim.Call {
			d := &sim.Driver{Net: net, Sched: sched, DrainAfterDone: true, HardStop: 70 * time.Second}
			for _, id := range all {
				if op == "sign" {
					d.Calls = append(d.Calls, cl.SignCall(ctx, id, []byte("0123456789abcdef0123456789abcdef"), "c13-topic"))
				} else {
					d.Calls = append(d.Calls, cl.KeyGenCall(ctx, id, len(all), 2))
				}
			}
			d.Run()
			if f := driverFailure("C13", d); f != nil {
				fail = f
			}
			return d.Calls
		}
		calls := run("keygen", &c.Sched)
		if fail != nil {
			return
		}
		if c.Op == "sign" {
			for i, cc := range calls {
				if cc.Err != nil || !cc.IsDone() {
					r.Errs = append(r.Errs, fmt.Sprintf("setup keygen of position %d: done=%v err=%v", i+1, cc.IsDone(), cc.Err))
					return
				}
				cl.Nodes[all[i]].Party.SetStoredData(cc.Data)
			}
			calls = run("sign", &c.Sched)
			if fail != nil {
				return
			}
		}
		r.OK = true
		for i, cc := range calls {
			if cc.Panic != "" {
				r.Panic = cc.Panic
			}
			if !cc.IsDone() {
				r.OK = false
				r.Errs = append(r.Errs, fmt.Sprintf("position %d: did not return", i+1))
			} else if cc.Err != nil {
				r.OK = false
				r.Errs = append(r.Errs, fmt.Sprintf("position %d: %v", i+1, cc.Err))
			} else {
				r.Shares = append(r.Shares, cc.Data)
			}
		}
		cancel()
		cl.StopAll()
		time.Sleep(time.Minute)
	})
	if br.Panic != "" {
		return r, vh.Failf("C13/harness-panic", "%s", br.Panic)
	}
	if fail != nil {
		return r, fail
	}
	sess := "dkg"
	if c.Op == "sign" {
		sess = "sign"
	}
	for _, e := range tape.Snapshot() {
		if e.Kind != "onmsg" || e.Session != sess {
			continue
		}
		// payload: kind | round | sender(2) | seq | body ; rename the embedded sender and body ids
		p := e.Payload
		desc := fmt.Sprintf("short:%x", p)
		if len(p) >= 5 {
			sender := uint16(p[2])<<8 | uint16(p[3])
			body := string(p[5:])
			if i := strings.Index(body, ";n"); i >= 0 { // the emitting node id is harness bookkeeping, not compared
				body = body[:i]
			}
			if len(body) > 2 && body[:2] == "to" {
				var q int
				fmt.Sscanf(body[2:], "%d", &q)
				body = fmt.Sprintf("to#%d", pos[uint16(q)])
			}
			desc = fmt.Sprintf("kind%d/round%d/sender#%d/seq%d/%s", p[0], p[1], pos[sender], p[4], body)
		}
		r.Handed = append(r.Handed, fmt.Sprintf("party#%d<-from#%d bcast=%v %s", pos[e.Party], pos[e.From], e.Bcast, desc))
	}
	sort.Strings(r.Handed)
	return r, nil
}

func runC13(c c13Case) *vh.Outcome {
	o := &vh.Outcome{}
	big := false
	for _, id := range c.IDs {
		if id > 255 {
			big = true
		}
	}
	o.NonTrivial = big
	o.Key = fmt.Sprintf("%v/%v/%s/%s/%v/%v", c.IDs, c.Silent, c.Backend, c.Op, c.Rounds, c.P2P)
	o.Classes = append(o.Classes, "backend="+c.Backend, "op="+c.Op, fmt.Sprintf("silent=%v", c.Silent))
	if big {
		o.Classes = append(o.Classes, "id>255")
	}
	real, f := c13Execute(c, c.IDs)
	if f != nil {
		o.Fail = f
		return o
	}
	twin, f := c13Execute(c, seq(1, len(c.IDs)))
	if f != nil {
		o.Fail = f
		return o
	}
	o.Info = map[string]interface{}{"ok": real.OK, "twin_ok": twin.OK, "errs": real.Errs, "handoffs": len(real.Handed)}
	if real.Panic != "" {
		o.Fail = vh.Failf("C13/panic/"+c.Backend, "session with identifiers %v panicked: %s", c.IDs, real.Panic)
		return o
	}
	if !twin.OK && !real.OK {
		// both fail: nothing about identifiers, but the session is fault-free and every frame is delivered - a round number (or
		// digest) that does not survive the wire breaks BOTH runs alike, and only an absolute verdict can see that
		o.Fail = vh.Failf("C13/fault-free-session-failed/"+c.Op, "a fault-free %s session (backend %s, rounds %v, silent=%v) fails with identifiers %v AND with identifiers 1..%d: %v", c.Op, c.Backend, c.Rounds, c.Silent, c.IDs, len(c.IDs), real.Errs)
		return o
	}
	if !twin.OK {
		// the small-identifier twin itself failed: not an identifier problem; report as discard so it is visible
		o.Discard = "twin-with-small-identifiers-failed"
		return o
	}
	if !real.OK {
		o.Fail = vh.Failf(fmt.Sprintf("C13/completion/%s/%s", c.Backend, c.Op), "session with identifiers %v (silent=%v, %s %s, rounds %v) fails while the same session with identifiers 1..%d completes: %v", c.IDs, c.Silent, c.Backend, c.Op, c.Rounds, len(c.IDs), real.Errs)
		return o
	}
	if c.Backend == "rec" {
		if fmt.Sprint(real.Handed) != fmt.Sprint(twin.Handed) {
			o.Fail = vh.Failf("C13/handoffs-differ/"+c.Op, "backend hand-offs with identifiers %v differ (after renaming) from those with identifiers 1..%d: %d vs %d hand-offs; first difference: %s", c.IDs, len(c.IDs), len(real.Handed), len(twin.Handed), firstDiff(real.Handed, twin.Handed))
			return o
		}
	}
	// serialisation round trips of saved key material / public parameters
	all := u16s(c.IDs)
	switch c.Backend {
	case "bls":
		var ref []byte
		var sigs [][]byte
		for i, id := range all {
			tb := &bls.TBLS{Logger: &sim.Logger{}, Party: id}
			tb.Init(all, 2, nil)
			if err := tb.SetShareData(real.Shares[i]); err != nil {
				o.Fail = vh.Failf("C13/roundtrip/bls", "saved share of party %d does not load: %v", id, err)
				return o
			}
			pp, _ := tb.ThresholdPK()
			if ref == nil {
				ref = pp
			} else if !bytes.Equal(ref, pp) {
				o.Fail = vh.Failf("C13/roundtrip/bls", "public parameters differ between parties %d and %d (ids %v)", all[0], id, c.IDs)
				return o
			}
			s, _ := tb.Sign(nil, []byte("c13"))
			sigs = append(sigs, s)
		}
		var v bls.Verifier
		if err := v.Init(ref); err != nil {
			o.Fail = vh.Failf("C13/roundtrip/bls", "Verifier.Init on serialised public parameters: %v", err)
			return o
		}
		agg, err := v.AggregateSignatures(sigs[:2], all[:2])
		if err != nil || v.Verify([]byte("c13"), agg) != nil {
			o.Fail = vh.Failf("C13/roundtrip/bls", "signature of parties %v does not verify after the serialisation round trip (ids %v): %v", all[:2], c.IDs, err)
			return o
		}
	case "ps":
		var ref []byte
		for i, id := range all {
			tp := &ps.TPS{Curve: math.Curves[1], Party: id, Logger: &sim.Logger{}, MessageLength: 1}
			tp.Init(all, 2, nil)
			if err := tp.SetShareData(real.Shares[i]); err != nil {
				o.Fail = vh.Failf("C13/roundtrip/ps", "saved share of party %d does not load: %v", id, err)
				return o
			}
			tpk, _ := tp.ThresholdPK()
			if ref == nil {
				ref = tpk
			} else if !bytes.Equal(ref, tpk) {
				o.Fail = vh.Failf("C13/roundtrip/ps", "public material differs between parties %d and %d (ids %v)", all[0], id, c.IDs)
				return o
			}
		}
		var v ps.Verifier
		if err := v.Init(math.Curves[1], 1, ref); err != nil {
			o.Fail = vh.Failf("C13/roundtrip/ps", "Verifier.Init on serialised public material: %v", err)
			return o
		}
		var pr ps.Prover
		pr.Logger = &sim.Logger{}
		if err := pr.Init(math.Curves[1], 1, ref, all); err != nil {
			o.Fail = vh.Failf("C13/roundtrip/ps", "Prover.Init on serialised public material: %v", err)
			return o
		}
	}
	return o
}

func firstDiff(a, b []string) string {
	for i := 0; i < len(a) || i < len(b); i++ {
		var x, y string
		if i < len(a) {
			x = a[i]
		}
		if i < len(b) {
			y = b[i]
		}
		if x != y {
			return fmt.Sprintf("%q vs %q", x, y)
		}
	}
	return ""
}

func TestC13Stack(t *testing.T) {
	theT = t
	vh.Prop[c13Case]{ID: "C13", Test: "TestC13Stack", Gen: genC13, Run: runC13,
		Sample: func(c c13Case, o *vh.Outcome) interface{} {
			return map[string]interface{}{"ids": c.IDs, "silent": c.Silent, "backend": c.Backend, "op": c.Op, "rounds": c.Rounds, "info": o.Info}
		}}.Main(t)
}
