//go:build verif

package checks

import (
	"bytes"
	"fmt"
	"runtime"
	"strconv"
	"sync"
	"testing"
	"time"

	"github.com/IBM/TSS/msg"
	tss "github.com/IBM/TSS/types"
	"pgregory.net/rapid"

	"verif/core/sim"
	"verif/vh"
)

// C14: silent-mode buffer, exactly-once in-order hand-off across the
// first-send race (DESIGN.md §3 C14). The harness owns the interleaving of the
// real msg.Box code through the `verif` yield hook: every logical thread runs
// in its own goroutine and parks at every yield point and harness callback; a
// cooperative scheduler resumes exactly one parked thread at a time.

// --- cooperative scheduler ---------------------------------------------------------

type coThread struct {
	name   string
	resume chan struct{}
	events chan string // "park:<point>" or "done"
	done   bool
	point  string
}

type coSched struct {
	mu      sync.Mutex
	byGoid  map[int64]*coThread
	threads []*coThread
}

func goid() int64 {
	var buf [64]byte
	n := runtime.Stack(buf[:], false)
	// "goroutine 123 [running]:"
	f := bytes.Fields(buf[:n])
	id, _ := strconv.ParseInt(string(f[1]), 10, 64)
	return id
}

var curSched *coSched // the hook is a package-level variable of msg; one case at a time

func coYield(point string) {
	s := curSched
	if s == nil {
		return
	}
	s.mu.Lock()
	th := s.byGoid[goid()]
	s.mu.Unlock()
	if th == nil {
		return // a goroutine that is not one of the logical threads (the box's clock)
	}
	th.events <- "park:" + point
	<-th.resume
}

func (s *coSched) spawn(name string, body func()) *coThread {
	th := &coThread{name: name, resume: make(chan struct{}), events: make(chan string, 1)}
	s.threads = append(s.threads, th)
	ready := make(chan struct{})
	go func() {
		s.mu.Lock()
		s.byGoid[goid()] = th
		s.mu.Unlock()
		close(ready)
		th.events <- "park:start"
		<-th.resume
		body()
		s.mu.Lock()
		delete(s.byGoid, goid())
		s.mu.Unlock()
		th.events <- "done"
	}()
	<-ready
	ev := <-th.events
	th.point = ev[5:]
	return th
}

// step resumes th and waits until it parks again or finishes.
func (s *coSched) step(th *coThread) {
	th.resume <- struct{}{}
	select {
	case ev := <-th.events:
		if ev == "done" {
			th.done = true
			th.point = "done"
		} else {
			th.point = ev[5:]
		}
	case <-time.After(20 * time.Second):
		panic(fmt.Sprintf("thread %s did not reach a yield point within 20s after %s (blocked on a lock held by a parked thread?)", th.name, th.point))
	}
}

// --- case -----------------------------------------------------------------------------

type c14Recv struct {
	Sender int
	Topics []int // topic of each message, in the order the thread hands them to the box
}

type c14Send struct {
	Topic int
	Times int
}

type c14Case struct {
	Recv    []c14Recv
	Send    []c14Send
	Choices []int
	// Limit: MaxInFlightTopicsBySender of the buffer; 0 = far away (1000). Otherwise the number of topics the busiest
	// sender uses, so that this sender is exactly at - not beyond - the documented limit.
	Limit int
	// NoWindow: generator switch of known finding L18 - keeps receive calls out of the window
	// between the "started?" test and the store while a Send on the same topic is in flight.
	NoWindow bool
	// Probe: run exactly this interleaving without the switch (set only by the probe cases of the known finding).
	Probe bool
}

func genC14(t *rapid.T) c14Case {
	var c c14Case
	nr := rapid.IntRange(1, 3).Draw(t, "nrecv")
	ntopics := rapid.IntRange(1, 2).Draw(t, "ntopics")
	for i := 0; i < nr; i++ {
		r := c14Recv{Sender: 10 + i}
		for j := rapid.IntRange(1, 4).Draw(t, "nmsg"); j > 0; j-- {
			r.Topics = append(r.Topics, rapid.IntRange(0, ntopics-1).Draw(t, "topic"))
		}
		c.Recv = append(c.Recv, r)
	}
	ns := rapid.IntRange(1, 2).Draw(t, "nsend")
	for i := 0; i < ns; i++ {
		c.Send = append(c.Send, c14Send{Topic: rapid.IntRange(0, ntopics-1).Draw(t, "stopic"), Times: rapid.IntRange(1, 2).Draw(t, "times")})
	}
	c.Choices = rapid.SliceOfN(rapid.IntRange(0, 7), 0, 150).Draw(t, "choices")
	if rapid.IntRange(0, 2).Draw(t, "atLimit") == 0 {
		for _, r := range c.Recv {
			d := map[int]bool{}
			for _, tp := range r.Topics {
				d[tp] = true
			}
			if len(d) > c.Limit {
				c.Limit = len(d)
			}
		}
	}
	return c
}

type c14Msg struct {
	Topic, Sender, Seq int
}

type c14Result struct {
	// PatternL18: the interleaving contains the racing pair of known finding L18 (a Send's critical section
	// inside a receive call's check-to-store window on the same topic, or a receive call that begins a message
	// on a topic while a Send on it is between its unlock and its return).
	PatternL18 bool
	Fail       *vh.Failure
	Branching  []int
	Overlap    bool
	Interleave string
	Full       string
	Steps      int
	Excluded   bool
}

func c14Topic(i int) []byte {
	b := make([]byte, 32)
	b[0] = byte(i + 1)
	return b
}

type c14Handler struct {
	mu  sync.Mutex
	log []c14Msg
}

func (h *c14Handler) HandleMessage(m *tss.IncMessage) {
	var seq int
	fmt.Sscanf(string(m.Data), "%d", &seq)
	h.mu.Lock()
	h.log = append(h.log, c14Msg{Topic: int(m.Topic[0]) - 1, Sender: int(m.Source), Seq: seq})
	h.mu.Unlock()
	coYield("handler")
}

// c14Execute runs one interleaving: choice i picks among the runnable threads at step i
// (0 after the vector is exhausted). It returns the branching factor at every step.
func c14Execute(c c14Case, choices []int) *c14Result {
	res := &c14Result{}
	s := &coSched{byGoid: map[int64]*coThread{}}
	curSched = s
	msg.VerifYield = coYield
	defer func() { curSched = nil; msg.VerifYield = nil }()

	h := &c14Handler{}
	tick := make(chan time.Time)
	limit := 1000
	if c.Limit > 0 {
		limit = c.Limit
	}
	box := &msg.Box{Logger: &sim.Logger{}, MaxInFlightTopicsBySender: limit, GCSweep: time.Second, GCExpire: 10 * time.Second,
		NewTicker:      func(time.Duration) *time.Ticker { return &time.Ticker{C: tick} },
		MessageHandler: h,
		ForwardSend:    func(uint8, []byte, []byte, ...tss.UniversalID) { coYield("forward-send") },
	}
	defer func() {
		defer func() { _ = recover() }()
		box.Stop()
	}()

	var handed []c14Msg // messages given to the box, in call order per thread
	var hmu sync.Mutex
	inSend := map[int]int{}   // topic -> number of Send calls currently in flight
	inWindow := map[int]int{} // topic -> receive calls currently between the started-check and the store
	sentOn := map[int]bool{}
	var threads []*coThread
	var thTopic = map[*coThread]func() int{}   // topic the thread is currently working on
	var nextTopic = map[*coThread]func() int{} // receive threads: topic of the message the thread will start next (-1 = none)

	for _, r := range c.Recv {
		r := r
		cur, idx := 0, 0
		var th *coThread
		th = s.spawn(fmt.Sprintf("recv%d", r.Sender), func() {
			for i, tp := range r.Topics {
				cur = tp
				idx = i + 1
				hmu.Lock()
				handed = append(handed, c14Msg{Topic: tp, Sender: r.Sender, Seq: i})
				hmu.Unlock()
				box.HandleMessage(&tss.IncMessage{MsgType: uint8(tss.MsgTypeMPC), Source: uint16(r.Sender), Topic: c14Topic(tp), Data: []byte(fmt.Sprintf("%d", i))})
			}
		})
		threads = append(threads, th)
		thTopic[th] = func() int { return cur }
		nextTopic[th] = func() int {
			if idx < len(r.Topics) {
				return r.Topics[idx]
			}
			return -1
		}
	}
	for i, sd := range c.Send {
		sd := sd
		var th *coThread
		th = s.spawn(fmt.Sprintf("send%d", i), func() {
			for k := 0; k < sd.Times; k++ {
				hmu.Lock()
				inSend[sd.Topic]++
				sentOn[sd.Topic] = true
				hmu.Unlock()
				box.Send(uint8(tss.MsgTypeMPC), c14Topic(sd.Topic), []byte("out"), 1)
				hmu.Lock()
				inSend[sd.Topic]--
				hmu.Unlock()
			}
		})
		threads = append(threads, th)
		thTopic[th] = func() int { return sd.Topic }
	}

	isRecv := func(th *coThread) bool { return isRecvName(th.name) }
	var trace, full []byte
	for step := 0; ; step++ {
		var runnable []*coThread
		for _, th := range threads {
			if th.done {
				continue
			}
			runnable = append(runnable, th)
		}
		if c.NoWindow {
			// Generator switch of known finding L18 (DESIGN Appendix A):
			// (a) a Send on topic T does not enter its critical section while a receive call on T sits between its
			//     "started?" test and its store (that receive would be stored after the drain: parked / lost);
			// (b) a receive call does not begin a message on T while a Send on T is past its critical section and
			//     has not returned yet (it would be forwarded directly and could overtake the drain: reordered).
			draining := map[int]bool{}
			for _, th := range threads {
				if !isRecvName(th.name) && !th.done {
					switch th.point {
					case "start", "Send:before-lock", "done":
					default: // anywhere between the unlock and the return of Send (own forward, drain hand-offs)
						draining[thTopic[th]()] = true
					}
				}
			}
			var filtered []*coThread
			for _, th := range runnable {
				if !isRecvName(th.name) && th.point == "Send:before-lock" && inWindow[thTopic[th]()] > 0 {
					continue
				}
				if isRecvName(th.name) {
					switch th.point {
					case "start", "storeOrForward:after-add", "handler":
						if nt := nextTopic[th](); nt >= 0 && draining[nt] {
							continue
						}
					}
				}
				filtered = append(filtered, th)
			}
			if len(filtered) != len(runnable) {
				res.Excluded = true
			}
			if len(filtered) > 0 {
				runnable = filtered
			}
		}
		if len(runnable) == 0 {
			break
		}
		res.Branching = append(res.Branching, len(runnable))
		k := 0
		if step < len(choices) {
			k = choices[step] % len(runnable)
		}
		th := runnable[k]
		before := th.point
		if !isRecv(th) && before == "Send:before-lock" && inWindow[thTopic[th]()] > 0 {
			res.PatternL18 = true
		}
		if isRecv(th) && (before == "start" || before == "storeOrForward:after-add" || before == "handler") {
			if nt := nextTopic[th](); nt >= 0 {
				for _, o := range threads {
					if !isRecv(o) && !o.done && thTopic[o]() == nt {
						switch o.point {
						case "start", "Send:before-lock", "done":
						default:
							res.PatternL18 = true
						}
					}
				}
			}
		}
		s.step(th)
		res.Steps++
		if isRecv(th) && before != th.point {
			hmu.Lock()
			if inSend[thTopic[th]()] > 0 {
				res.Overlap = true
			}
			hmu.Unlock()
		}
		// window bookkeeping (for the statistics and the generator switch)
		if isRecv(th) {
			tp := thTopic[th]()
			if th.point == "storeOrForward:after-started-check" {
				inWindow[tp]++
			}
			if before != "storeOrForward:after-add" && (th.point == "storeOrForward:after-add") {
				inWindow[tp]--
			}
			if th.point == "storeOrForward:after-started-check" || th.point == "storeOrForward:before-mark" || th.point == "storeOrForward:after-mark" || th.point == "storeOrForward:before-add" || th.point == "getOrCreate:between-lookups" {
				hmu.Lock()
				if inSend[tp] > 0 {
					res.Overlap = true
				}
				hmu.Unlock()
			}
		} else {
			tp := thTopic[th]()
			if inWindow[tp] > 0 && th.point != "done" && th.point != "start" {
				res.Overlap = true
			}
		}
		full = append(full, []byte(fmt.Sprintf("%s@%s ", th.name, th.point))...)
		if len(trace) < 600 {
			trace = append(trace, []byte(fmt.Sprintf("%s@%s ", th.name, th.point))...)
		}
	}
	res.Interleave = string(trace)
	res.Full = fmt.Sprintf("%+v|%+v|%s", c.Recv, c.Send, full)

	// oracle: without any further Send
	h.mu.Lock()
	log := append([]c14Msg(nil), h.log...)
	h.mu.Unlock()
	got := map[c14Msg]int{}
	for _, m := range log {
		got[m]++
	}
	given := map[c14Msg]bool{}
	for _, m := range handed {
		given[m] = true
	}
	for m, n := range got {
		if !given[m] {
			res.Fail = vh.Failf("C14/invented", "the dispatcher was handed %+v which was never received", m)
			return res
		}
		if n > 1 {
			res.Fail = vh.Failf("C14/dup/"+c14Pattern(res), "message %+v was handed to the dispatcher %d times; interleaving: %s", m, n, res.Interleave)
			return res
		}
	}
	var missing []c14Msg
	for _, m := range handed {
		if sentOn[m.Topic] && got[m] == 0 {
			missing = append(missing, m)
		}
	}
	// per (topic, sender) order
	last := map[[2]int]int{}
	for _, m := range log {
		k := [2]int{m.Topic, m.Sender}
		if prev, ok := last[k]; ok && m.Seq < prev {
			res.Fail = vh.Failf("C14/reordered/"+c14Pattern(res), "messages of sender %d on topic %d were handed over out of their arrival order (seq %d after %d); interleaving: %s", m.Sender, m.Topic, m.Seq, prev, res.Interleave)
			return res
		}
		last[k] = m.Seq
	}
	if len(missing) > 0 {
		// classification only: does one more Send release them?
		curSched = nil
		msg.VerifYield = nil
		for tp := range sentOn {
			box.Send(uint8(tss.MsgTypeMPC), c14Topic(tp), []byte("classify"), 1)
		}
		h.mu.Lock()
		after := map[c14Msg]int{}
		for _, m := range h.log {
			after[m]++
		}
		h.mu.Unlock()
		kind := "lost"
		if after[missing[0]] > 0 {
			kind = "parked"
		}
		res.Fail = vh.Failf("C14/"+kind+"/"+c14Pattern(res), "message %+v was received on a topic the local party sent on, but it was not handed to the dispatcher by the time all receive and send calls had returned (%s: a further Send %s it); interleaving: %s", missing[0], kind, map[string]string{"lost": "does not release", "parked": "releases"}[kind], res.Interleave)
		return res
	}
	return res
}

func c14Pattern(r *c14Result) string {
	if r.PatternL18 {
		return "first-send-window"
	}
	return "other"
}

func isRecvName(n string) bool { return len(n) > 4 && n[:4] == "recv" }

var c14Mu sync.Mutex

func runC14(c c14Case) *vh.Outcome {
	c14Mu.Lock()
	defer c14Mu.Unlock()
	o := &vh.Outcome{}
	if vh.KnownOpen("C14/lost/first-send-window") || vh.KnownOpen("C14/parked/first-send-window") || vh.KnownOpen("C14/reordered/first-send-window") {
		if !c.NoWindow && vh.EnvStr("VERIF_NO_SWITCH") == "" && !c.Probe {
			c.NoWindow = true
		}
	}
	if vh.EnvStr("VERIF_FORCE_SWITCH") != "" && !c.Probe {
		c.NoWindow = true
	}
	var res *c14Result
	func() {
		defer func() {
			if r := recover(); r != nil {
				o.Fail = vh.Failf("C14/panic", "%v\n%s", r, shortStack())
			}
		}()
		res = c14Execute(c, c.Choices)
		c14Last = res
	}()
	if o.Fail != nil {
		return o
	}
	o.Fail = res.Fail
	o.NonTrivial = res.Overlap
	o.Key = res.Full
	if res.Overlap {
		o.Classes = append(o.Classes, "receive-overlaps-send-on-same-topic")
	}
	if res.Excluded {
		o.Classes = append(o.Classes, "excluded-by-known-finding-L18(window)")
	}
	o.Info = map[string]interface{}{"steps": res.Steps, "interleaving": res.Interleave}
	return o
}

var c14Last *c14Result

func TestC14(t *testing.T) {
	theT = t
	vh.Prop[c14Case]{ID: "C14", Test: "TestC14", Gen: genC14, Run: runC14,
		Sample: func(c c14Case, o *vh.Outcome) interface{} {
			return map[string]interface{}{"recv": c.Recv, "send": c.Send, "info": o.Info}
		}}.Main(t)
}

// TestC14DFS enumerates ALL interleavings (at yield-point granularity) of small configurations.
func TestC14DFS(t *testing.T) {
	theT = t
	p := vh.Prop[c14Case]{ID: "C14", Test: "TestC14DFS", Run: runC14}
	if vh.EnvStr("VERIF_REPLAY_IN") != "" {
		p.Main(t)
		return
	}
	st := vh.NewStats("C14", "TestC14DFS")
	defer st.Flush()
	configs := []c14Case{
		{Recv: []c14Recv{{Sender: 10, Topics: []int{0, 0}}}, Send: []c14Send{{Topic: 0, Times: 1}}},
		{Recv: []c14Recv{{Sender: 10, Topics: []int{0}}, {Sender: 11, Topics: []int{0}}}, Send: []c14Send{{Topic: 0, Times: 1}}},
	}
	if vh.Thorough() {
		configs = append(configs,
			c14Case{Recv: []c14Recv{{Sender: 10, Topics: []int{0, 0}}}, Send: []c14Send{{Topic: 0, Times: 2}}},
			c14Case{Recv: []c14Recv{{Sender: 10, Topics: []int{0, 1}}}, Send: []c14Send{{Topic: 0, Times: 1}, {Topic: 1, Times: 1}}},
			c14Case{Recv: []c14Recv{{Sender: 10, Topics: []int{0, 0, 0}}}, Send: []c14Send{{Topic: 0, Times: 1}}})
	}
	limit := vh.EnvInt("VERIF_CASES", 60000)
	shard, shards := vh.EnvInt("VERIF_SHARD", 0), vh.EnvInt("VERIF_SHARDS", 1)
	complete := true
	total := 0
	for ci, cfg := range configs {
		if ci%shards != shard%shards {
			continue
		}
		path := []int{}
		n := 0
		for {
			c := cfg
			c.Choices = append([]int(nil), path...)
			vh.Journal("C14", "TestC14DFS", c)
			o := runC14(c)
			st.Record(o, map[string]interface{}{"recv": c.Recv, "send": c.Send, "path": c.Choices})
			n++
			total++
			if o.Fail != nil {
				if vh.KnownOpen(o.Fail.Signature) {
					st.KnownHit(o.Fail.Signature)
				} else {
					p.Enumerate(t, st, func(yield func(c14Case) bool) { yield(c) })
					return
				}
			}
			// advance: the executed path is `path` followed by zeros; branching factors tell how to move on
			br := c14Last.Branching
			full := make([]int, len(br))
			copy(full, path)
			i := len(full) - 1
			for i >= 0 && full[i]+1 >= br[i] {
				i--
			}
			if i < 0 {
				break
			}
			path = append(full[:i:i], full[i]+1)
			if n >= limit {
				complete = false
				break
			}
		}
		st.Note("TestC14DFS config %d (%+v / %+v): %d interleavings, complete=%v", ci, cfg.Recv, cfg.Send, n, n < limit)
	}
	st.SetExhaustive(complete)
	_ = total
}
