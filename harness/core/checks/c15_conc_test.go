package checks

import (
	"fmt"
	"sync"
	"testing"
	"time"

	"github.com/IBM/TSS/msg"
	tss "github.com/IBM/TSS/types"
	"pgregory.net/rapid"

	"verif/vh"
)

// C15 under real concurrency (DESIGN.md §3 C15). TestC15 drives the buffer from one goroutine and only interleaves at the
// collector's yield points; a window that opens anywhere else (e.g. a lock released one statement too early) is invisible
// to it. Here real dispatcher goroutines race with the goroutine that starts the topic, round after round, and the verdict
// is black-box and exact for this history shape:
//
//	round r uses a fresh topic T_r; every sender delivers its messages for T_r while one goroutine calls Send(T_r).
//	When all of them have returned, every message of the round has been handed to the dispatcher exactly once (it was
//	either held and released by the Send, or it arrived after the start and was forwarded), because every sender is
//	within its limits: it has at most ONE topic in flight (all earlier topics have started) and sends at most a handful
//	of messages per topic. The clock never ticks, so nothing expires.
//
// A (sender, topic) registration that is not released when the topic starts accumulates over the rounds and, after
// limit+1 leaks, throttles a sender that has nothing buffered at all ("never throttled because of topics that finished
// earlier") - which shows as a message of a later round that is never handed over.

type c15ConcCase struct {
	Senders int
	Limit   int // MaxInFlightTopicsBySender
	Rounds  int
	PerTop  int // messages per sender and topic
	Shape   int // topic shape, see c15Topic
}

type c15ConcInfo struct {
	Rounds, Messages int
}

type c15ConcHandler struct {
	mu  sync.Mutex
	got map[string]int
}

func (h *c15ConcHandler) HandleMessage(m *tss.IncMessage) {
	h.mu.Lock()
	h.got[fmt.Sprintf("%d/%d/%s", c15TopicNo(m.Topic), m.Source, m.Data)]++
	h.mu.Unlock()
}

func runC15Conc(c c15ConcCase) *vh.Outcome {
	o := &vh.Outcome{Key: fmt.Sprintf("%+v", c)}
	info := &c15ConcInfo{}
	o.Info = info
	h := &c15ConcHandler{got: map[string]int{}}
	box := &msg.Box{Logger: &quietLogger{}, MaxInFlightTopicsBySender: c.Limit, GCSweep: time.Hour, GCExpire: 3 * time.Hour,
		NewTicker:      func(time.Duration) *time.Ticker { return time.NewTicker(24 * time.Hour) }, // the clock never ticks
		MessageHandler: h,
		ForwardSend:    func(uint8, []byte, []byte, ...tss.UniversalID) {},
	}
	defer func() {
		defer func() { _ = recover() }()
		box.Stop()
	}()
	var panicMu sync.Mutex
	panicked := ""
	guard := func(what string, f func()) {
		defer func() {
			if r := recover(); r != nil {
				panicMu.Lock()
				if panicked == "" {
					panicked = fmt.Sprintf("%s panicked: %v", what, r)
				}
				panicMu.Unlock()
			}
		}()
		f()
	}
	for r := 0; r < c.Rounds; r++ {
		tpNo := 256 + r // two or more bytes in every shape, distinct per round
		tp := c15Topic(tpNo, c.Shape)
		var wg sync.WaitGroup
		start := make(chan struct{})
		for s := 1; s <= c.Senders; s++ {
			s := s
			wg.Add(1)
			go func() {
				defer wg.Done()
				<-start
				for k := 0; k < c.PerTop; k++ {
					guard("HandleMessage", func() {
						box.HandleMessage(&tss.IncMessage{MsgType: uint8(tss.MsgTypeMPC), Source: uint16(s), Topic: append([]byte(nil), tp...), Data: []byte(fmt.Sprintf("%d", k))})
					})
				}
			}()
		}
		wg.Add(1)
		go func() {
			defer wg.Done()
			<-start
			// let the Send land somewhere inside the burst of receives
			for i := 0; i < (r%7)*40; i++ {
				_ = i
			}
			guard("Send", func() { box.Send(uint8(tss.MsgTypeMPC), append([]byte(nil), tp...), []byte("x"), 1) })
		}()
		close(start)
		done := make(chan struct{})
		go func() { wg.Wait(); close(done) }()
		select {
		case <-done:
		case <-time.After(30 * time.Second):
			o.Fail = vh.Failf("C15/conc/stuck", "round %d: receives and the Send on a fresh topic have not all returned after 30s (%+v)", r, c)
			return o
		}
		if panicked != "" {
			o.Fail = vh.Failf("C15/conc/panic", "%s (round %d, %+v)", panicked, r, c)
			return o
		}
		info.Rounds++
		h.mu.Lock()
		for s := 1; s <= c.Senders; s++ {
			for k := 0; k < c.PerTop; k++ {
				info.Messages++
				n := h.got[fmt.Sprintf("%d/%d/%d", tpNo, s, k)]
				if n != 1 && o.Fail == nil {
					what := "was never handed to the dispatcher"
					if n > 1 {
						what = fmt.Sprintf("was handed to the dispatcher %d times", n)
					}
					o.Fail = vh.Failf("C15/conc/within-limit-message-not-handed-over-once", "round %d: message %d of sender %d on the round's fresh topic %s although the topic has started, the sender has no other topic in flight (every earlier topic started; limit %d) and sent %d messages on it (limit 100): after %d rounds the buffer's per-sender bookkeeping no longer matches what it holds (%+v)", r, k, s, what, c.Limit, c.PerTop, r, c)
				}
			}
		}
		h.got = map[string]int{}
		h.mu.Unlock()
		if o.Fail != nil {
			return o
		}
	}
	o.NonTrivial = info.Rounds >= 50
	o.Classes = append(o.Classes, fmt.Sprintf("limit=%d", c.Limit), fmt.Sprintf("senders=%d", c.Senders))
	return o
}

func TestC15Conc(t *testing.T) {
	vh.Prop[c15ConcCase]{ID: "C15", Test: "TestC15Conc", Run: runC15Conc, Gen: func(t *rapid.T) c15ConcCase {
		return c15ConcCase{
			Senders: rapid.IntRange(2, 8).Draw(t, "senders"),
			Limit:   rapid.SampledFrom([]int{1, 1, 2, 3}).Draw(t, "limit"),
			Rounds:  rapid.SampledFrom([]int{300, 1000, 3000}).Draw(t, "rounds"),
			PerTop:  rapid.IntRange(1, 3).Draw(t, "pertopic"),
			Shape:   rapid.SampledFrom([]int{0, 0, 1, 2}).Draw(t, "shape"),
		}
	}, Sample: func(c c15ConcCase, o *vh.Outcome) interface{} {
		return map[string]interface{}{"case": c, "info": o.Info}
	}}.Main(t)
}
