package checks

import (
	"fmt"
	"sync"
	"testing"
	"testing/synctest"
	"time"

	"github.com/IBM/TSS/msg"
	tss "github.com/IBM/TSS/types"
	"pgregory.net/rapid"

	"verif/core/sim"
	"verif/vh"
)

// C15: the silent-mode buffer stays bounded and gives resources back
// (DESIGN.md §3 C15). Stateful against a reference model; the GC epoch clock is
// a hand-fed ticker, time.Now is the bubble's virtual clock.

type c15Op struct {
	Kind   int // 0 receive burst, 1 send, 2 advance epochs, 3 idle (long advance)
	Sender int
	Topic  int
	Burst  int
	Epochs int
}

type c15Case struct {
	Limit  int // MaxInFlightTopicsBySender
	Expire int // GCExpire in sweeps (epochs)
	Ops    []c15Op
	// Switches of the known findings (set by the runner, recorded for replay)
	NoExpiry bool // avoid never-started topics older than GCExpire and idle periods longer than GCExpire
	// Intr: operations executed in the middle of other operations, at yield points of the buffer
	Intr []c15Intr `json:",omitempty"`
	// TopicShape: how topic numbers become topic bytes (the buffer receives topics from the network and must cope with any length):
	// 0 32 bytes; 1 two bytes; 2 length by topic number (2, 3, 32, 45 bytes); 3 tiny (topic 0 empty, 1..255 one byte, others two bytes)
	TopicShape int `json:",omitempty"`
}

type c15Intr struct {
	Point int // index into c15Points
	Nth   int // at the Nth passage of that point in the whole history
	Ops   []c15Op
}

// the collector's yield points: the Send that runs the collector has finished its own hand-over there, which is what the
// model can follow (interleavings inside the hand-over itself are C14's subject, with its own scheduler)
var c15Points = []string{"maybeGC:before-mark", "maybeGC:after-mark"}

const c15PerSenderLimit = 100

func genC15(maxOps int) func(t *rapid.T) c15Case {
	return func(t *rapid.T) c15Case {
		var c c15Case
		c.Limit = rapid.IntRange(2, 4).Draw(t, "limit")
		c.Expire = rapid.IntRange(2, 4).Draw(t, "expire")
		c.TopicShape = rapid.SampledFrom([]int{0, 0, 0, 1, 2, 3}).Draw(t, "topicshape")
		if rapid.IntRange(0, 4).Draw(t, "template") == 0 {
			// history template "partial expiry": one sender has buffered topics of different ages, a collection expires
			// only the old ones, then the sender opens further topics; finally everything is started
			snd := rapid.IntRange(1, 3).Draw(t, "tsender")
			nold := rapid.IntRange(1, 2).Draw(t, "told")
			nyoung := rapid.IntRange(1, c.Limit).Draw(t, "tyoung")
			nnew := rapid.IntRange(1, c.Limit+3).Draw(t, "tnew")
			tp := 500
			for i := 0; i < nold; i++ {
				c.Ops = append(c.Ops, c15Op{Kind: 0, Sender: snd, Topic: tp, Burst: 1})
				tp++
			}
			c.Ops = append(c.Ops, c15Op{Kind: 2, Epochs: c.Expire})
			for i := 0; i < nyoung; i++ {
				c.Ops = append(c.Ops, c15Op{Kind: 0, Sender: snd, Topic: tp, Burst: 1})
				tp++
			}
			c.Ops = append(c.Ops, c15Op{Kind: 2, Epochs: 1}, c15Op{Kind: 1, Sender: snd, Topic: 900, Burst: 1})
			for i := 0; i < nnew; i++ {
				c.Ops = append(c.Ops, c15Op{Kind: 0, Sender: snd, Topic: tp, Burst: 1})
				tp++
			}
			for x := 500; x < tp; x++ {
				c.Ops = append(c.Ops, c15Op{Kind: 1, Sender: snd, Topic: x, Burst: 1})
			}
		}
		switch rapid.IntRange(0, 8).Draw(t, "template2") {
		case 0:
			// history template "quiet sessions": honest use in which nothing is ever held back - the local party sends first,
			// the peers' messages follow - so every collection runs with an empty buffer; afterwards stragglers for the
			// long finished sessions arrive
			k := rapid.IntRange(1, 5).Draw(t, "qsessions")
			for i := 0; i < k; i++ {
				c.Ops = append(c.Ops, c15Op{Kind: 1, Sender: 1, Topic: 600 + i, Burst: 1},
					c15Op{Kind: 0, Sender: rapid.IntRange(1, 3).Draw(t, "qsender"), Topic: 600 + i, Burst: rapid.IntRange(1, 3).Draw(t, "qburst")},
					c15Op{Kind: 2, Epochs: rapid.IntRange(1, 2).Draw(t, "qgap")})
			}
			for g := 0; g < rapid.IntRange(2, 3).Draw(t, "qtriggers"); g++ {
				c.Ops = append(c.Ops, c15Op{Kind: 2, Epochs: c.Expire + 1}, c15Op{Kind: 1, Sender: 1, Topic: 700 + g, Burst: 1})
			}
			for i := 0; i < k; i++ {
				c.Ops = append(c.Ops, c15Op{Kind: 0, Sender: rapid.IntRange(1, 3).Draw(t, "qstraggler"), Topic: 600 + i, Burst: 1})
			}
			for i := 0; i < k; i++ {
				c.Ops = append(c.Ops, c15Op{Kind: 1, Sender: 1, Topic: 600 + i, Burst: 1})
			}
		case 2:
			// history template "one starts, more are opened": a sender fills its topics-in-flight allowance, ONE of those topics
			// starts, the sender opens many more topics, finally everything is started (so that what was held is observed)
			snd := rapid.IntRange(1, 3).Draw(t, "osender")
			for i := 0; i < c.Limit; i++ {
				c.Ops = append(c.Ops, c15Op{Kind: 0, Sender: snd, Topic: 820 + i, Burst: 1})
			}
			c.Ops = append(c.Ops, c15Op{Kind: 1, Sender: snd, Topic: 820 + rapid.IntRange(0, c.Limit-1).Draw(t, "ostart"), Burst: 1})
			extra := rapid.IntRange(c.Limit+2, 2*c.Limit+4).Draw(t, "oextra")
			for i := 0; i < extra; i++ {
				c.Ops = append(c.Ops, c15Op{Kind: 0, Sender: snd, Topic: 840 + i, Burst: 1})
			}
			for i := 0; i < c.Limit; i++ {
				c.Ops = append(c.Ops, c15Op{Kind: 1, Sender: snd, Topic: 820 + i, Burst: 1})
			}
			for i := 0; i < extra; i++ {
				c.Ops = append(c.Ops, c15Op{Kind: 1, Sender: snd, Topic: 840 + i, Burst: 1})
			}
		case 1:
			// history template "flood keep-alive": a sender goes far beyond its message limit on a topic that never starts
			// and keeps sending on it, a little at a time, while collections are triggered; finally the topic is started
			snd := rapid.IntRange(1, 3).Draw(t, "fsender")
			c.Ops = append(c.Ops, c15Op{Kind: 0, Sender: snd, Topic: 800, Burst: rapid.SampledFrom([]int{104, 110, 150}).Draw(t, "fburst")})
			rounds := rapid.IntRange(2, 8).Draw(t, "frounds")
			for i := 0; i < rounds; i++ {
				c.Ops = append(c.Ops, c15Op{Kind: 2, Epochs: rapid.IntRange(1, c.Expire).Draw(t, "fgap")},
					c15Op{Kind: 0, Sender: snd, Topic: 800, Burst: rapid.IntRange(1, 2).Draw(t, "fmore")},
					c15Op{Kind: 1, Sender: snd, Topic: 810 + i, Burst: 1})
			}
			c.Ops = append(c.Ops, c15Op{Kind: 1, Sender: snd, Topic: 800, Burst: 1})
		}
		for i := rapid.IntRange(0, 3).Draw(t, "nintr"); i > 0; i-- {
			in := c15Intr{Point: rapid.IntRange(0, 1).Draw(t, "ipoint"), Nth: rapid.IntRange(1, 6).Draw(t, "inth")}
			for k := rapid.IntRange(1, 3).Draw(t, "iops"); k > 0; k-- {
				in.Ops = append(in.Ops, c15Op{
					Kind:   rapid.SampledFrom([]int{0, 0, 2}).Draw(t, "ikind"), // receives and clock ticks; a nested Send would run a nested collector, which the model cannot follow
					Sender: rapid.IntRange(1, 3).Draw(t, "isender"),
					Topic:  rapid.IntRange(0, 4).Draw(t, "itopic"),
					Burst:  1,
					Epochs: rapid.IntRange(1, 2).Draw(t, "iepochs"),
				})
			}
			c.Intr = append(c.Intr, in)
		}
		n := rapid.IntRange(3, maxOps).Draw(t, "nops")
		base := 0
		for i := 0; i < n; i++ {
			k := rapid.SampledFrom([]int{0, 0, 0, 0, 1, 1, 1, 2, 2, 2, 3, 4, 4, 4}).Draw(t, "kind")
			if rapid.IntRange(0, 5).Draw(t, "slide") == 0 {
				base++ // the topic stream moves on: cumulatively many topics, few at any one time
			}
			op := c15Op{Kind: k,
				Sender: rapid.IntRange(1, 3).Draw(t, "sender"),
				Topic:  base + rapid.IntRange(0, 2).Draw(t, "topic"),
				Burst:  rapid.SampledFrom([]int{1, 1, 1, 2, 3, 5, 40, 99, 100, 101, 103}).Draw(t, "burst"),
				Epochs: rapid.IntRange(1, 3).Draw(t, "epochs"),
			}
			if k == 3 {
				op.Epochs = rapid.IntRange(5, 12).Draw(t, "idle")
			}
			if k == 4 { // a Send on a brand-new topic after a few epochs: a pure GC trigger
				op.Kind = 1
				op.Topic = 1000 + i
				c.Ops = append(c.Ops, c15Op{Kind: 2, Epochs: rapid.IntRange(1, 4).Draw(t, "gap")})
			}
			c.Ops = append(c.Ops, op)
		}
		return c
	}
}

type c15Msg struct {
	topic, sender, seq int
	epoch              int  // arrival epoch
	must               bool // the model says it must be accepted
	mustNot            bool // the model says it must be shed (clearly beyond a limit)
	arrIdx, handIdx    int  // logical time of arrival and of hand-off (0 = not handed)
	mayExpire          bool
	mustHold           bool // the topic's started-mark has certainly been collected: the message must be held, not forwarded
	handed             int
}

type c15Handler struct {
	mu  sync.Mutex
	log []*tss.IncMessage
}

func (h *c15Handler) HandleMessage(m *tss.IncMessage) {
	h.mu.Lock()
	h.log = append(h.log, m)
	h.mu.Unlock()
}

func c15Topic(i, shape int) []byte {
	n := 32
	switch shape {
	case 1:
		n = 2
	case 2:
		n = []int{2, 3, 32, 45}[i%4]
	case 3:
		switch {
		case i == 0:
			return []byte{}
		case i < 256:
			return []byte{byte(i)}
		default:
			n = 2
		}
	}
	b := make([]byte, n)
	b[0], b[1] = byte(i>>8), byte(i)
	if n > 2 {
		b[2] = 0x5A
	}
	return b
}

func c15TopicNo(b []byte) int {
	switch len(b) {
	case 0:
		return 0
	case 1:
		return int(b[0])
	}
	return int(b[0])<<8 | int(b[1])
}

type c15Info struct {
	Received, Handed, MustAccept int
	CrossedPerSenderLimit        bool
	CrossedTopicLimit            bool
	Expiries                     int
	ReuseAfterFinished           bool
	Excluded                     int
	Intrusions                   int
	StragglersAfterRelease       int
	ShedWhileWaiting             int
}

func runC15(c c15Case) *vh.Outcome {
	o := &vh.Outcome{}
	info := &c15Info{}
	o.Info = info
	avoidExpiry := (vh.KnownOpen("C15/expired-pending-not-discarded") || vh.KnownOpen("C15/gc-stops-after-idle")) && vh.EnvStr("VERIF_NO_SWITCH") == "" && !c.NoExpiry == true
	if c.NoExpiry {
		avoidExpiry = false // probe cases run as written
	}
	var fail *vh.Failure
	sim.Bubble(theT, func() {
		h := &c15Handler{}
		tick := make(chan time.Time)
		box := &msg.Box{Logger: &sim.Logger{}, MaxInFlightTopicsBySender: c.Limit, GCSweep: time.Second, GCExpire: time.Duration(c.Expire) * time.Second,
			NewTicker:      func(time.Duration) *time.Ticker { return &time.Ticker{C: tick} },
			MessageHandler: h,
			ForwardSend:    func(uint8, []byte, []byte, ...tss.UniversalID) {},
		}
		stopped := false
		defer func() {
			if !stopped {
				func() { defer func() { _ = recover() }(); box.Stop() }()
			}
		}()
		epoch := 0
		advance := func(n int) {
			for i := 0; i < n; i++ {
				time.Sleep(time.Second) // virtual wall clock moves with the epochs
				tick <- time.Now()
				synctest.Wait()
				epoch++
			}
		}
		var all []*c15Msg
		clock := 0 // logical time: one tick per box call
		byKey := map[string]*c15Msg{}
		started := map[int]bool{}
		lastSend := map[int]int{}     // topic -> epoch of the last Send
		firstArrival := map[int]int{} // pending topic -> epoch of its most recent arrival (the library keeps the newest)
		seqOf := map[[2]int]int{}
		gcTriggersSince := map[int]int{} // pending topic -> number of *spaced* GC triggers (Sends on other topics, more than Expire epochs apart) since it became older than GCExpire
		lastTrigger := map[int]int{}     // pending topic -> epoch of the last counted trigger
		startedTriggers := map[int]int{} // started topic -> number of spaced GC triggers since its last Send became older than GCExpire
		startedLastTrig := map[int]int{}
		// a started topic whose last Send is older than GCExpire and that has seen two spaced GC triggers since then has
		// certainly been collected: its bookkeeping is released, the buffer no longer knows that it ever started
		certainlyForgotten := func(tp, now int) bool {
			return started[tp] && now-lastSend[tp] > c.Expire && startedTriggers[tp] >= 2
		}
		certainlyExpired := func(tp, now int) bool {
			fa, ok := firstArrival[tp]
			return ok && !started[tp] && now-fa > c.Expire && gcTriggersSince[tp] >= 2
		}
		var sendEpochs []int // epoch of every Send so far (each one is a chance for the collector to run)
		initialized := false
		guard := func(what string, f func()) bool {
			defer func() {
				if r := recover(); r != nil && fail == nil {
					fail = vh.Failf("C15/panic/"+what, "%s panicked: %v\n%s", what, r, shortStack())
				}
			}()
			f()
			return fail == nil
		}
		// model helpers
		// a started topic whose last Send is older than GCExpire may have been collected: it then buffers (and limits) again
		isStarted := func(tp, now int) bool { return started[tp] && now-lastSend[tp] <= c.Expire }
		activeTopics := func(sender int, now int) map[int]bool {
			act := map[int]bool{}
			for _, m := range all {
				if m.sender == sender && !isStarted(m.topic, now) && m.handed == 0 && !certainlyExpired(m.topic, now) {
					act[m.topic] = true
				}
			}
			return act
		}
		pendingCount := func(topic, sender int) int {
			n := 0
			for _, m := range all {
				if m.topic == topic && m.sender == sender && m.handed == 0 {
					n++
				}
			}
			return n
		}
		collect := func() {
			h.mu.Lock()
			log := h.log
			h.log = nil
			h.mu.Unlock()
			for _, im := range log {
				var tp, sq int
				tp = c15TopicNo(im.Topic)
				fmt.Sscanf(string(im.Data), "%d", &sq)
				k := fmt.Sprintf("%d/%d/%d", tp, im.Source, sq)
				m := byKey[k]
				if m == nil {
					if fail == nil {
						fail = vh.Failf("C15/invented", "the dispatcher was handed a message (topic %d sender %d seq %d) that was never received", tp, im.Source, sq)
					}
					continue
				}
				m.handed++
				m.handIdx = clock
				info.Handed++
				if m.mustNot && fail == nil {
					fail = vh.Failf("C15/topic-limit-exceeded", "sender %d already had at least %d buffered topics (limit %d, give or take one) when it opened topic %d at epoch %d, yet that message (seq %d) was buffered and handed over", m.sender, c.Limit+2, c.Limit, m.topic, m.epoch, m.seq)
				}
				if m.handed > 1 && fail == nil {
					fail = vh.Failf("C15/duplicate", "message topic %d sender %d seq %d was handed over %d times", tp, im.Source, sq, m.handed)
				}
			}
		}

		var exec func(op c15Op)
		exec = func(op c15Op) {
			if fail != nil {
				return
			}
			switch op.Kind {
			case 0:
				for b := 0; b < op.Burst && fail == nil; b++ {
					initialized = true
					key := [2]int{op.Topic, op.Sender}
					sq := seqOf[key]
					seqOf[key]++
					m := &c15Msg{topic: op.Topic, sender: op.Sender, seq: sq, epoch: epoch}
					m.mustHold = certainlyForgotten(op.Topic, epoch)
					if m.mustHold {
						info.StragglersAfterRelease++
					}
					if !isStarted(op.Topic, epoch) && pendingCount(op.Topic, op.Sender) >= c15PerSenderLimit+3 {
						info.ShedWhileWaiting++ // the sender keeps sending on a waiting topic although it is clearly beyond its message limit
					}
					if !isStarted(op.Topic, epoch) {
						if avoidExpiry {
							// known findings L19: keep never-started data younger than GCExpire by construction
							if fa, ok := firstArrival[op.Topic]; ok && epoch-fa >= c.Expire {
								info.Excluded++
								continue
							}
						}
						act := activeTopics(op.Sender, epoch)
						delete(act, op.Topic)
						within := len(act) <= c.Limit-1 && pendingCount(op.Topic, op.Sender) < c15PerSenderLimit-1
						m.must = within
						// clearly beyond the topics-in-flight limit: the sender certainly has limit+2 other buffered topics
						// (accepted for sure, not started, too young to have expired) and opens yet another one
						certain := map[int]bool{}
						for _, x := range all {
							if x.sender == op.Sender && x.topic != op.Topic && x.must && x.handed == 0 && !started[x.topic] && epoch-x.epoch < c.Expire && epoch-firstArrival[x.topic] < c.Expire {
								certain[x.topic] = true
							}
						}
						newTopic := true
						for _, x := range all {
							if x.sender == op.Sender && x.topic == op.Topic && x.handed == 0 {
								newTopic = false
							}
						}
						if newTopic && len(certain) >= c.Limit+2 {
							m.mustNot = true
							info.CrossedTopicLimit = true
						}
						if len(act) >= c.Limit {
							info.CrossedTopicLimit = true
						}
						if pendingCount(op.Topic, op.Sender) >= c15PerSenderLimit {
							info.CrossedPerSenderLimit = true
						}
						// a sender that had finished / expired topics earlier and is within limits now
						for _, old := range all {
							if old.sender == op.Sender && old.topic != op.Topic && (started[old.topic] || certainlyExpired(old.topic, epoch)) {
								info.ReuseAfterFinished = true
							}
						}
						firstArrival[op.Topic] = epoch
						delete(gcTriggersSince, op.Topic)
						delete(lastTrigger, op.Topic)
					} else {
						m.must = true
					}
					clock++
					m.arrIdx = clock
					all = append(all, m)
					byKey[fmt.Sprintf("%d/%d/%d", m.topic, m.sender, m.seq)] = m
					info.Received++
					if m.must {
						info.MustAccept++
					}
					guard("HandleMessage", func() {
						box.HandleMessage(&tss.IncMessage{MsgType: uint8(tss.MsgTypeMPC), Source: uint16(op.Sender), Topic: c15Topic(op.Topic, c.TopicShape), Data: []byte(fmt.Sprintf("%d", sq))})
					})
					collect()
					if fail == nil && m.mustHold && m.handed > 0 {
						fail = vh.Failf("C15/started-topic-bookkeeping-not-released", "topic %d was last sent on at epoch %d; at epoch %d (GCExpire %d epochs, %d collections triggered since it expired) the buffer still remembers it as started: a message of sender %d went straight to the dispatcher instead of being held for a new session", op.Topic, lastSend[op.Topic], epoch, c.Expire, startedTriggers[op.Topic], op.Sender)
					}
				}
			case 1:
				initialized = true
				if avoidExpiry {
					if fa, ok := firstArrival[op.Topic]; ok && !started[op.Topic] && epoch-fa >= c.Expire {
						info.Excluded++
						return
					}
				}
				// expiry clause: data of a never-started topic that is older than GCExpire + 2 sweeps and saw >= 2 GC triggers must be gone
				mustBeGone := false
				if certainlyExpired(op.Topic, epoch) {
					mustBeGone = true
				}
				before := map[*c15Msg]int{}
				for _, m := range all {
					before[m] = m.handed
				}
				clock++
				// operations may be executed in the middle of this Send (intrusions at the collector's yield points, after the
				// Send's own hand-over): everything the model books for THIS Send uses the epoch and the history at its start
				e0, nSends := epoch, len(sendEpochs)
				guard("Send", func() { box.Send(uint8(tss.MsgTypeMPC), c15Topic(op.Topic, c.TopicShape), []byte("x"), 1) })
				collect()
				if fail != nil {
					break
				}
				epochNow := epoch
				epoch = e0
				defer func() { epoch = epochNow }()
				released := map[int]int{}
				for _, m := range all {
					if m.topic == op.Topic && m.handed > before[m] {
						released[m.sender]++
					}
				}
				for snd, n := range released {
					if n > c15PerSenderLimit+2 && !started[op.Topic] {
						fail = vh.Failf("C15/message-limit-exceeded", "a Send on topic %d released %d buffered messages of sender %d; the per-sender limit is %d (give or take one)", op.Topic, n, snd, c15PerSenderLimit)
					}
				}
				if fail != nil {
					break
				}
				// expiry, judged after the fact: what this Send released is exactly what the buffer held for the topic. Let L be
				// the newest arrival among it. Messages that were shed do not count as use of the buffered data, so if two
				// earlier Sends g1 < g2 (each runs the collector unless one ran less than GCExpire before) satisfy
				// g1 > L+GCExpire and g2 > g1+GCExpire, a collection certainly ran while this data was older than GCExpire.
				{
					newest, any := -1, false
					var wit *c15Msg
					for _, m := range all {
						if m.topic == op.Topic && m.handed > before[m] && m.arrIdx < clock {
							any = true
							if m.epoch > newest {
								newest, wit = m.epoch, m
							}
						}
					}
					if any {
						g1 := -1
						for _, g := range sendEpochs[:nSends] {
							if g1 < 0 && g > newest+c.Expire {
								g1 = g
							} else if g1 >= 0 && g > g1+c.Expire {
								info.Expiries++
								fail = vh.Failf("C15/expired-pending-not-discarded", "the Send on topic %d at epoch %d released data whose newest buffered message arrived at epoch %d (sender %d seq %d); GCExpire is %d epochs and Sends at epochs %d and %d each had to run the collector unless one had run less than GCExpire before: the data should have been discarded", op.Topic, epoch, newest, wit.sender, wit.seq, c.Expire, g1, g)
								break
							}
						}
					}
				}
				sendEpochs = append(sendEpochs[:nSends:nSends], append([]int{e0}, sendEpochs[nSends:]...)...)
				if fail != nil {
					break
				}
				// order per sender within this release
				// (collect() processes the handler log in hand-off order; check via seq monotonicity per sender)
				if mustBeGone {
					for _, m := range all {
						if m.topic == op.Topic && m.handed > before[m] {
							info.Expiries++
							fail = vh.Failf("C15/expired-pending-not-discarded", "topic %d never started; its data from epoch %d is older than GCExpire (%d epochs) plus two sweeps at epoch %d and the GC had %d triggers, but Send still handed it over (sender %d seq %d)", op.Topic, m.epoch, c.Expire, epoch, gcTriggersSince[op.Topic], m.sender, m.seq)
							break
						}
					}
					if fail == nil {
						info.Expiries++
					}
				}
				started[op.Topic] = true
				lastSend[op.Topic] = epoch
				delete(startedTriggers, op.Topic)
				delete(startedLastTrig, op.Topic)
				for tp := range started {
					if tp != op.Topic && epoch-lastSend[tp] > c.Expire {
						if lt, ok := startedLastTrig[tp]; !ok || epoch-lt > c.Expire {
							startedTriggers[tp]++
							startedLastTrig[tp] = epoch
						}
					}
				}
				for tp, fa := range firstArrival {
					if tp != op.Topic && !started[tp] && epoch-fa > c.Expire {
						if lt, ok := lastTrigger[tp]; !ok || epoch-lt > c.Expire {
							gcTriggersSince[tp]++
							lastTrigger[tp] = epoch
						}
					}
				}
				// every must-accept message of this topic that arrived before this Send has to be handed over by now
				if !mustBeGone {
					for _, m := range all {
						if m.topic == op.Topic && m.must && m.handed == 0 && epoch-firstArrival[m.topic] <= c.Expire && epoch-m.epoch <= c.Expire {
							sig := "C15/within-limit-message-not-handed-over"
							// classification of the usual suspects
							reason := ""
							for _, old := range all {
								if old.sender == m.sender && old.topic != m.topic && (old.handed > 0 || started[old.topic]) {
									reason = "throttled-by-finished-topics"
								}
							}
							for _, old := range all {
								if old.sender == m.sender && old.topic != m.topic && certainlyExpired(old.topic, m.epoch) {
									reason = "expired-pending-not-discarded"
								}
							}
							if reason != "" {
								sig = "C15/" + reason
							}
							fail = vh.Failf(sig, "sender %d was within its limits (limit %d topics in flight) when it sent message seq %d on topic %d at epoch %d, but the message was not handed over by the Send on that topic at epoch %d (%s)", m.sender, c.Limit, m.seq, m.topic, m.epoch, epoch, reason)
							break
						}
					}
				}
			case 2, 3:
				n := op.Epochs
				if avoidExpiry && n > c.Expire-1 {
					n = c.Expire - 1
					info.Excluded++
				}
				if !initialized {
					return // the clock only exists once the box has been used
				}
				advance(n)
			}
		}
		// intrusions: at the Nth passage of a yield point of the buffer (all lie outside its critical sections) a short list of
		// further operations is executed right there - exactly what another goroutine could do at that moment. This puts
		// receives, Sends and clock ticks BETWEEN the steps of a Send and of the collector (read clock / mark / sweep).
		outerTopic, inIntr := -1, false
		passages := map[string]int{}
		msg.VerifYield = func(point string) {
			if inIntr || fail != nil {
				return
			}
			passages[point]++
			for _, in := range c.Intr {
				if c15Points[in.Point%len(c15Points)] != point || in.Nth != passages[point] {
					continue
				}
				inIntr = true
				info.Intrusions++
				for _, op := range in.Ops {
					if op.Kind == 1 || (op.Kind == 0 && op.Topic == outerTopic) {
						continue // no nested Send; the model finishes its bookkeeping of the outer topic only when the operation returns
					}
					if op.Kind == 2 {
						op.Epochs = 1
					}
					exec(op)
				}
				inIntr = false
			}
		}
		defer func() { msg.VerifYield = nil }()
		for _, op := range c.Ops {
			if fail != nil {
				break
			}
			outerTopic = op.Topic
			exec(op)
			outerTopic = -1
		}
		msg.VerifYield = nil
		// flush: one final Send per topic that holds must-accept data younger than GCExpire
		if fail == nil {
			topics := map[int]bool{}
			for _, m := range all {
				if m.must && m.handed == 0 && epoch-m.epoch <= c.Expire {
					topics[m.topic] = true
				}
			}
			for tp := range topics {
				clock++
				guard("Send", func() { box.Send(uint8(tss.MsgTypeMPC), c15Topic(tp, c.TopicShape), []byte("flush"), 1) })
				collect()
			}
			for _, m := range all {
				if fail == nil && m.must && m.handed == 0 && epoch-m.epoch <= c.Expire {
					sig := "C15/within-limit-message-not-handed-over"
					for _, old := range all {
						if old.sender == m.sender && old.topic != m.topic && (old.handed > 0 || started[old.topic]) {
							sig = "C15/throttled-by-finished-topics"
						}
					}
					for _, old := range all {
						if old.sender == m.sender && old.topic != m.topic && certainlyExpired(old.topic, m.epoch) {
							sig = "C15/expired-pending-not-discarded"
						}
					}
					fail = vh.Failf(sig, "sender %d was within its limits when it sent message seq %d on topic %d at epoch %d, but a Send on that topic at epoch %d does not hand it over (limit %d topics in flight, GCExpire %d epochs)", m.sender, m.seq, m.topic, m.epoch, epoch, c.Limit, c.Expire)
				}
			}
		}
		// bounded retention, observed: a message that was handed over by a later Send sat in the buffer from its arrival
		// to that Send. At no time may one sender have had more than limit+2 topics buffered (the limit, give or take one,
		// plus the one the check lets through).
		if fail == nil {
			for snd := 1; snd <= 3 && fail == nil; snd++ {
				for _, at := range all {
					if at.sender != snd || at.handIdx <= at.arrIdx {
						continue
					}
					topics := map[int]bool{}
					for _, m := range all {
						if m.sender == snd && m.handIdx > m.arrIdx && m.arrIdx <= at.arrIdx && m.handIdx > at.arrIdx {
							topics[m.topic] = true
						}
					}
					if len(topics) > c.Limit+2 {
						info.CrossedTopicLimit = true
						fail = vh.Failf("C15/topic-limit-exceeded", "sender %d had %d topics buffered at the same time (when its message seq %d on topic %d arrived at epoch %d); the limit is %d, give or take one", snd, len(topics), at.seq, at.topic, at.epoch, c.Limit)
						break
					}
				}
			}
		}
		if initialized {
			stopped = true
			func() { defer func() { _ = recover() }(); box.Stop() }()
		}
	})
	o.Fail = fail
	o.Key = fmt.Sprintf("%+v", c)
	o.NonTrivial = info.CrossedPerSenderLimit || info.CrossedTopicLimit || info.Expiries > 0 || info.ReuseAfterFinished || info.StragglersAfterRelease > 0
	if info.CrossedPerSenderLimit {
		o.Classes = append(o.Classes, "crossed-per-sender-message-limit")
	}
	if info.CrossedTopicLimit {
		o.Classes = append(o.Classes, "crossed-topics-in-flight-limit")
	}
	if info.Expiries > 0 {
		o.Classes = append(o.Classes, "expiry-clause-checked")
	}
	if info.ReuseAfterFinished {
		o.Classes = append(o.Classes, "sender-reused-after-finished-topics")
	}
	if info.StragglersAfterRelease > 0 {
		o.Classes = append(o.Classes, "straggler-after-started-topic-was-collected")
	}
	if info.ShedWhileWaiting > 0 {
		o.Classes = append(o.Classes, "shed-message-on-waiting-topic")
	}
	if info.Intrusions > 0 {
		o.Classes = append(o.Classes, "operations-in-the-middle-of-another-operation")
	}
	if info.Excluded > 0 {
		o.Classes = append(o.Classes, "excluded-by-known-finding-L19(expiry)")
	}
	return o
}

func TestC15(t *testing.T) {
	theT = t
	maxOps := 60
	if vh.Thorough() {
		maxOps = 400
	}
	vh.Prop[c15Case]{ID: "C15", Test: "TestC15", Gen: genC15(maxOps), Run: runC15,
		Sample: func(c c15Case, o *vh.Outcome) interface{} {
			return map[string]interface{}{"limit": c.Limit, "expire_epochs": c.Expire, "ops": len(c.Ops), "first_ops": c.Ops[:min(len(c.Ops), 8)], "info": o.Info}
		}}.Main(t)
}
