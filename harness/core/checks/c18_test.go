package checks

import (
	"context"
	"crypto/rand"
	"encoding/asn1"
	"fmt"
	"testing"

	"github.com/IBM/TSS/mpc/bls"
	"github.com/IBM/TSS/mpc/ps"
	math "github.com/IBM/mathlib"
	"github.com/consensys/gnark-crypto/ecc/bn254"

	"verif/core/sim"
	"verif/vh"
)

// C18: secret sharing algebra (DESIGN.md §3 C18). Public API only.

// --- reconstruction in the exponent --------------------------------------------

type c18ReconCase struct {
	Backend string // bls | ps
	N, T    int
	Subset  []int // evaluation points, in the order handed to the library
	L       int   // ps message length
}

// dealtBLS: a freshly dealt polynomial wrapped into the library's stored-data format.
type dealtBLS struct {
	n, t    int
	shares  [][]byte // StoredData per party
	pp      []byte   // PublicParams with ThresholdPK = g2^{p(0)} computed independently
	partial map[int][]byte
	digest  []byte
}

func dealBLS(n, t int) *dealtBLS {
	poly, shares := (&bls.SSS{Threshold: t}).Gen(n, rand.Reader)
	d := &dealtBLS{n: n, t: t, partial: map[int][]byte{}}
	secretPK := curve.GenG2.Mul(poly[0]).Bytes() // independent of the library's Lagrange code
	var pks [][]byte
	for i := 0; i < n; i++ {
		pks = append(pks, curve.GenG2.Mul(shares[i]).Bytes())
	}
	parties := seq(1, n)
	for i := 0; i < n; i++ {
		sd, _ := asn1.Marshal(bls.StoredData{Sk: shares[i].Bytes(), PublicKeys: pks, ThresholdPK: secretPK})
		d.shares = append(d.shares, sd)
	}
	d.pp, _ = asn1.Marshal(bls.PublicParams{Parties: parties, PublicKeys: pks, ThresholdPK: secretPK})
	d.digest = make([]byte, 32)
	_, _ = rand.Read(d.digest)
	for i := 0; i < n; i++ {
		tb := &bls.TBLS{Logger: &sim.Logger{}, Party: uint16(i + 1)}
		tb.Init(u16s(parties), t, nil)
		if err := tb.SetShareData(d.shares[i]); err != nil {
			panic(err)
		}
		s, _ := tb.Sign(context.Background(), d.digest)
		d.partial[i+1] = s
	}
	return d
}

func psG2() *math.G2 {
	g2, err := bn254.HashToG2([]byte("PS"), []byte("G2"))
	if err != nil {
		panic(err)
	}
	b := g2.Bytes()
	g, err := curve.NewG2FromBytes(b[:])
	if err != nil {
		panic(err)
	}
	return g
}

type dealtPS struct {
	n, t, l int
	tpk     []byte
	prover  *ps.Prover
	secret  *ps.UnblindingSecret
	wit     map[int]ps.SignatureWitness
	err     error
}

func dealPS(n, t, l int) *dealtPS {
	d := &dealtPS{n: n, t: t, l: l, wit: map[int]ps.SignatureWitness{}}
	g2 := psG2()
	comps := l + 2 // x, y_1..y_{l+1}
	polys := make([]ps.Polynomial, comps)
	shares := make([]ps.Shares, comps)
	for k := 0; k < comps; k++ {
		polys[k], shares[k] = (&ps.SSS{Threshold: t}).Gen(n, rand.Reader)
	}
	xysOf := func(f func(k int) []byte) []byte {
		x := ps.XYs{X: f(0)}
		for k := 1; k < comps; k++ {
			x.Ys = append(x.Ys, f(k))
		}
		b, _ := asn1.Marshal(x)
		return b
	}
	tpkKey := xysOf(func(k int) []byte { return g2.Mul(polys[k][0]).Bytes() })
	var pks [][]byte
	for i := 0; i < n; i++ {
		i := i
		pks = append(pks, xysOf(func(k int) []byte { return g2.Mul(shares[k][i]).Bytes() }))
	}
	d.tpk, _ = asn1.Marshal(ps.ThresholdPK{TPK: tpkKey, PublicKeys: pks})
	parties := u16s(seq(1, n))
	d.prover = &ps.Prover{Logger: &sim.Logger{}}
	if d.err = d.prover.Init(curve, l, d.tpk, parties); d.err != nil {
		return d
	}
	msgs := make([][]byte, l)
	for i := range msgs {
		msgs[i] = make([]byte, 1+i)
		_, _ = rand.Read(msgs[i])
	}
	req, secret := d.prover.Blind(msgs)
	d.secret = &secret
	for i := 0; i < n; i++ {
		i := i
		sk := xysOf(func(k int) []byte { return shares[k][i].Bytes() })
		sd, _ := asn1.Marshal(ps.StoredData{Sk: sk, PublicKeys: pks, ThresholdPK: tpkKey})
		tp := &ps.TPS{Curve: curve, Party: uint16(i + 1), Logger: &sim.Logger{}, MessageLength: l}
		tp.Init(parties, t, nil)
		if d.err = tp.SetShareData(sd); d.err != nil {
			return d
		}
		sig, err := tp.Sign(context.Background(), req.Bytes())
		if err != nil {
			d.err = fmt.Errorf("party %d cannot sign: %w", i+1, err)
			return d
		}
		w, err := d.prover.UnBlind(uint16(i+1), sig, d.secret)
		if err != nil {
			d.err = fmt.Errorf("partial signature of party %d from a dealt share does not unblind under its key: %w", i+1, err)
			return d
		}
		d.wit[i+1] = w
	}
	return d
}

func TestC18Recon(t *testing.T) {
	theT = t
	var curBLS *dealtBLS
	var curPS *dealtPS
	p := vh.Prop[c18ReconCase]{ID: "C18", Test: "TestC18Recon", Run: func(c c18ReconCase) *vh.Outcome {
		o := &vh.Outcome{}
		o.Key = fmt.Sprintf("%s/%d/%d/%v", c.Backend, c.N, c.T, c.Subset)
		prefix := true
		for i, p := range c.Subset {
			if p != i+1 {
				prefix = false
			}
		}
		o.NonTrivial = !(prefix && len(c.Subset) == c.T)
		o.Classes = append(o.Classes, "backend="+c.Backend, fmt.Sprintf("n=%d", c.N))
		asc := true
		for i := 1; i < len(c.Subset); i++ {
			if c.Subset[i] < c.Subset[i-1] {
				asc = false
			}
		}
		if !asc {
			o.Classes = append(o.Classes, "non-ascending-order")
		}
		if len(c.Subset) > c.T {
			o.Classes = append(o.Classes, "superset")
		}
		if c.Backend == "bls" {
			if curBLS == nil || curBLS.n != c.N || curBLS.t != c.T {
				curBLS = dealBLS(c.N, c.T)
			}
			d := curBLS
			var v bls.Verifier
			if err := v.Init(d.pp); err != nil {
				o.Fail = vh.Failf("C18/harness", "Verifier.Init: %v", err)
				return o
			}
			var sigs [][]byte
			for _, pnt := range c.Subset {
				sigs = append(sigs, d.partial[pnt])
			}
			agg, err := v.AggregateSignatures(sigs, u16s(c.Subset))
			if err != nil {
				o.Fail = vh.Failf("C18/reconstruct/bls", "aggregation over evaluation points %v failed: %v", c.Subset, err)
				return o
			}
			if err := v.Verify(d.digest, agg); err != nil {
				o.Fail = vh.Failf("C18/reconstruct/bls", "shares of a freshly dealt secret at evaluation points %v (n=%d t=%d) combined with the library's Lagrange coefficients do not give the dealt secret: signature does not verify under g2^p(0)", c.Subset, c.N, c.T)
				return o
			}
			return o
		}
		if curPS == nil || curPS.n != c.N || curPS.t != c.T || curPS.l != c.L {
			curPS = dealPS(c.N, c.T, c.L)
		}
		d := curPS
		if d.err != nil {
			o.Fail = vh.Failf("C18/reconstruct/ps/setup", "n=%d t=%d L=%d: %v", c.N, c.T, c.L, d.err)
			return o
		}
		var ws []ps.SignatureWitness
		for _, pnt := range c.Subset {
			ws = append(ws, d.wit[pnt])
		}
		pok := d.prover.ProveKnowledgeOfSignature(d.secret, u16s(c.Subset), ws)
		var v ps.Verifier
		if err := v.Init(curve, c.L, d.tpk); err != nil {
			o.Fail = vh.Failf("C18/harness", "ps Verifier.Init: %v", err)
			return o
		}
		if err := v.Verify(pok.Bytes()); err != nil {
			o.Fail = vh.Failf("C18/reconstruct/ps", "witnesses from freshly dealt shares at evaluation points %v (n=%d t=%d L=%d) do not aggregate to a signature under g2^p(0): %v", c.Subset, c.N, c.T, c.L, err)
			return o
		}
		return o
	}}
	if vh.EnvStr("VERIF_REPLAY_IN") != "" {
		p.Main(t)
		return
	}
	st := vh.NewStats("C18", "TestC18Recon")
	defer st.Flush()
	shard, shards := vh.EnvInt("VERIF_SHARD", 0), vh.EnvInt("VERIF_SHARDS", 1)
	maxBLS, maxPS := 8, 5
	if vh.Thorough() {
		maxBLS, maxPS = 10, 6
	}
	complete := true
	idx := 0
	p.Enumerate(t, st, func(yield func(c18ReconCase) bool) {
		emit := func(backend string, n, tt, l int) bool {
			idx++
			if idx%shards != shard%shards {
				return true
			}
			ok := true
			forSubsets(n, tt, func(sub []int) bool {
				orders := [][]int{sub}
				if len(sub) > 1 {
					rev := make([]int, len(sub))
					for i := range sub {
						rev[i] = sub[len(sub)-1-i]
					}
					rot := append(append([]int(nil), sub[1:]...), sub[0])
					orders = append(orders, rev, rot)
				}
				for _, ord := range orders {
					if !yield(c18ReconCase{Backend: backend, N: n, T: tt, Subset: ord, L: l}) {
						ok = false
						return false
					}
				}
				return true
			})
			return ok
		}
		for n := 2; n <= maxBLS; n++ {
			for tt := 2; tt <= n; tt++ {
				if !emit("bls", n, tt, 0) {
					complete = false
					return
				}
			}
		}
		for n := 2; n <= maxPS; n++ {
			for tt := 2; tt <= n; tt++ {
				for _, l := range []int{1, 2} {
					if !emit("ps", n, tt, l) {
						complete = false
						return
					}
				}
			}
		}
		// large sizes (not exhaustive): chosen subsets - the lowest and the highest evaluation points, all points, a spread -
		// for n up to 64 (BLS) / 24 (PS), with thresholds on both sides of every power-of-two boundary a fixed-width
		// intermediate could hit (x^(t-1) for x up to n)
		large := func(backend string, ns []int, l int) bool {
			for _, n := range ns {
				ts := map[int]bool{}
				for _, tt := range []int{2, 3, n / 2, 10, 11, 12, 13, 14, 15, 16, 17, n - 1, n} {
					if tt >= 2 && tt <= n {
						ts[tt] = true
					}
				}
				for _, tt := range sortedInts(intKeysOf(ts)) {
					idx++
					if idx%shards != shard%shards {
						continue
					}
					low, high := seq(1, tt), seq(n-tt+1, n)
					highDesc := make([]int, len(high))
					for i := range high {
						highDesc[i] = high[len(high)-1-i]
					}
					var spread []int
					for x := n; x >= 1 && len(spread) < tt; x -= 2 {
						spread = append(spread, x)
					}
					for x := n - 1; x >= 1 && len(spread) < tt; x -= 2 {
						spread = append(spread, x)
					}
					for _, sub := range [][]int{low, high, highDesc, seq(1, n), spread} {
						if !yield(c18ReconCase{Backend: backend, N: n, T: tt, Subset: sub, L: l}) {
							return false
						}
					}
				}
			}
			return true
		}
		blsNs, psNs := []int{12, 16, 17, 18, 19, 20, 24, 32}, []int{8, 12, 17}
		if vh.Thorough() {
			blsNs, psNs = []int{11, 12, 13, 16, 17, 18, 19, 20, 21, 24, 28, 32, 40, 48, 64}, []int{7, 8, 12, 16, 17, 18, 20, 24}
		}
		if !large("bls", blsNs, 0) || !large("ps", psNs, 1) {
			complete = false
			return
		}
	})
	st.SetExhaustive(false)
	_ = complete
	st.Note("TestC18Recon: every subset of size >= t in ascending, descending and rotated order for BLS n<=%d and PS n<=%d (L in {1,2}); one fresh random polynomial per (backend,n,t,L); plus chosen subsets (lowest / highest points, all, spread) for BLS n up to 32 (thorough 64) and PS n up to 17 (thorough 24)", maxBLS, maxPS)
}

// --- cross-check coverage: a single off-polynomial key at every position -----------

func TestC18Cross(t *testing.T) {
	theT = t
	type cc struct {
		c05Case
		MustDetect bool
	}
	run := func(c cc) *vh.Outcome {
		o := runC05(c.c05Case)
		if o.Fail != nil {
			o.Fail.Signature = "C18/cross/" + o.Fail.Signature
			return o
		}
		info := o.Info.(*c05Info)
		o.Key = fmt.Sprintf("%s/%d/%d/%d/%d/%d", c.Backend, c.N, c.T, c.Byz, c.Strategy, c.Arg)
		o.NonTrivial = true
		if c.MustDetect {
			if info.Delivered == 0 {
				o.Discard = "deviation-not-delivered"
				return o
			}
			for p, r := range info.Results {
				if r == "ok" {
					o.Fail = vh.Failf("C18/cross/undetected/"+c.Backend, "the key of party %d is off the common polynomial (component %d) but honest party %d accepted the DKG (n=%d t=%d)", c.Byz, c.Arg, p, c.N, c.T)
					return o
				}
			}
			o.Classes = append(o.Classes, "off-polynomial-key-detected")
		} else {
			for p, r := range info.Results {
				if r != "ok" {
					o.Fail = vh.Failf("C18/cross/false-rejection/"+c.Backend, "all keys lie on one polynomial but party %d rejected the DKG: %s (n=%d t=%d)", p, r, c.N, c.T)
					return o
				}
			}
			o.Classes = append(o.Classes, "on-polynomial-accepted")
		}
		return o
	}
	p := vh.Prop[cc]{ID: "C18", Test: "TestC18Cross", Run: run, Sample: func(c cc, o *vh.Outcome) interface{} {
		return map[string]interface{}{"backend": c.Backend, "n": c.N, "t": c.T, "off_polynomial_party": c.Byz, "component": c.Arg, "must_detect": c.MustDetect, "info": o.Info}
	}}
	if vh.EnvStr("VERIF_REPLAY_IN") != "" {
		p.Main(t)
		return
	}
	st := vh.NewStats("C18", "TestC18Cross")
	defer st.Flush()
	shard, shards := vh.EnvInt("VERIF_SHARD", 0), vh.EnvInt("VERIF_SHARDS", 1)
	maxBLS, maxPS := 6, 4
	if vh.Thorough() {
		maxBLS, maxPS = 8, 5
	}
	complete := true
	idx := 0
	p.Enumerate(t, st, func(yield func(cc) bool) {
		for _, be := range []string{"bls", "ps"} {
			maxN := maxBLS
			if be == "ps" {
				maxN = maxPS
			}
			for n := 2; n <= maxN; n++ {
				for tt := 2; tt <= n; tt++ {
					idx++
					if idx%shards != shard%shards {
						continue
					}
					l := 1
					// all on one polynomial: accepted (every (n,t), including t = n)
					base := c05Case{Backend: be, L: l, N: n, T: tt, Byz: 1, Strategy: 0, Victims: []int{2}}
					if !yield(cc{base, false}) {
						complete = false
						return
					}
					if tt == n {
						continue // no cross-check is possible with t = n
					}
					comps := 1
					if be == "ps" {
						comps = l + 2
					}
					for j := 1; j <= n; j++ {
						for comp := 0; comp < comps; comp++ {
							c := c05Case{Backend: be, L: l, N: n, T: tt, Byz: j, Strategy: 4, Arg: comp}
							for h := 1; h <= n; h++ {
								if h != j {
									c.Victims = append(c.Victims, h)
								}
							}
							if !yield(cc{c, true}) {
								complete = false
								return
							}
						}
					}
				}
			}
		}
	})
	// many parties (thorough tier): an honest DKG with more than 64 parties and t = n-1 - the cross-check then covers the n
	// subsets that leave one party out, so it stays affordable - and one off-polynomial key at the highest position
	if vh.Thorough() {
		p.Enumerate(t, st, func(yield func(cc) bool) {
			for _, be := range []string{"bls", "ps"} {
				for _, n := range []int{66} {
					idx++
					if idx%shards != shard%shards {
						continue
					}
					if !yield(cc{c05Case{Backend: be, L: 1, N: n, T: n - 1, Byz: 1, Strategy: 0, Victims: []int{2}}, false}) {
						return
					}
					c := c05Case{Backend: be, L: 1, N: n, T: n - 1, Byz: n, Strategy: 4, Arg: 0}
					for h := 1; h < n; h++ {
						c.Victims = append(c.Victims, h)
					}
					if !yield(cc{c, true}) {
						return
					}
				}
			}
		})
	}
	st.SetExhaustive(complete)
	st.Note("TestC18Cross: for BLS n<=%d and PS n<=%d, every (n,t): honest control accepted; for t<n every position j and every key component off the polynomial (consistently committed) must be rejected by every honest party", maxBLS, maxPS)
}

func intKeysOf(m map[int]bool) []int {
	var ks []int
	for k := range m {
		ks = append(ks, k)
	}
	return ks
}
