package checks

import (
	"fmt"
	"math/rand"
	"sync"
	"sync/atomic"
	"testing"
	"time"

	"github.com/IBM/TSS/msg"
	tss "github.com/IBM/TSS/types"
	"pgregory.net/rapid"

	"verif/vh"
)

// C20 at the level of the silent-mode buffer (DESIGN.md §3 C20): SilentScheme
// hard-codes a 20 s sweep and a 2 min expiry, so the full-stack runs of TestC20
// never reach the collector. Here the real msg.Box runs with a fast clock (sweep
// 1 ms, expiry 2..4 ms): dispatcher goroutines deliver messages while protocol
// goroutines start topics, so that mark / sweep / Send / storeOrForward overlap
// for real. Oracle: the race detector (this file is only useful in the -race build).

type c20BoxCase struct {
	Seed      int
	Receivers int // dispatcher goroutines (one sender identity each)
	Starters  int // goroutines that call Send
	Topics    int
	Limit     int
	ExpireMs  int
	Millis    int // duration
}

type c20BoxInfo struct {
	Received, Sent, Handed int64
}

type c20BoxHandler struct{ n *int64 }

func (h c20BoxHandler) HandleMessage(*tss.IncMessage) { atomic.AddInt64(h.n, 1) }

func runC20Box(c c20BoxCase) *vh.Outcome {
	o := &vh.Outcome{NonTrivial: true, Key: fmt.Sprintf("%+v", c)}
	info := &c20BoxInfo{}
	o.Info = info
	box := &msg.Box{Logger: &quietLogger{}, MaxInFlightTopicsBySender: c.Limit, GCSweep: time.Millisecond, GCExpire: time.Duration(c.ExpireMs) * time.Millisecond,
		NewTicker:      time.NewTicker,
		MessageHandler: c20BoxHandler{&info.Handed},
		ForwardSend:    func(uint8, []byte, []byte, ...tss.UniversalID) {},
	}
	stop := make(chan struct{})
	var wg sync.WaitGroup
	topic := func(i int) []byte {
		b := make([]byte, 32)
		b[0], b[1] = byte(i), byte(i>>8)
		return b
	}
	var epochTopic int64 // topics move on so that old ones expire and new ones are opened all the time
	for r := 0; r < c.Receivers; r++ {
		r := r
		wg.Add(1)
		go func() {
			defer wg.Done()
			rng := rand.New(rand.NewSource(int64(c.Seed*31 + r)))
			for {
				select {
				case <-stop:
					return
				default:
				}
				tp := int(atomic.LoadInt64(&epochTopic)) + rng.Intn(c.Topics)
				box.HandleMessage(&tss.IncMessage{MsgType: uint8(tss.MsgTypeMPC), Source: uint16(10 + r), Topic: topic(tp), Data: []byte("x")})
				atomic.AddInt64(&info.Received, 1)
				if rng.Intn(8) == 0 {
					time.Sleep(time.Duration(rng.Intn(300)) * time.Microsecond)
				}
			}
		}()
	}
	for s := 0; s < c.Starters; s++ {
		s := s
		wg.Add(1)
		go func() {
			defer wg.Done()
			rng := rand.New(rand.NewSource(int64(c.Seed*17 + s + 1000)))
			for {
				select {
				case <-stop:
					return
				default:
				}
				tp := int(atomic.LoadInt64(&epochTopic)) + rng.Intn(c.Topics)
				box.Send(uint8(tss.MsgTypeMPC), topic(tp), []byte("s"), 1)
				atomic.AddInt64(&info.Sent, 1)
				if rng.Intn(20) == 0 {
					atomic.AddInt64(&epochTopic, 1)
				}
				time.Sleep(time.Duration(rng.Intn(500)) * time.Microsecond)
			}
		}()
	}
	time.Sleep(time.Duration(c.Millis) * time.Millisecond)
	close(stop)
	wg.Wait()
	func() { defer func() { _ = recover() }(); box.Stop() }()
	o.Classes = append(o.Classes, fmt.Sprintf("receivers=%d", c.Receivers), fmt.Sprintf("starters=%d", c.Starters))
	return o
}

func TestC20Box(t *testing.T) {
	vh.Prop[c20BoxCase]{ID: "C20", Test: "TestC20Box", Run: runC20Box, Gen: func(t *rapid.T) c20BoxCase {
		return c20BoxCase{
			Seed:      rapid.IntRange(1, 1<<20).Draw(t, "seed"),
			Receivers: rapid.IntRange(1, 4).Draw(t, "receivers"),
			Starters:  rapid.IntRange(1, 3).Draw(t, "starters"),
			Topics:    rapid.SampledFrom([]int{3, 12, 40, 120, 300}).Draw(t, "topics"), // many topics = long mark/sweep passes = wide windows
			Limit:     rapid.SampledFrom([]int{2, 4, 6, 50}).Draw(t, "limit"),
			ExpireMs:  rapid.IntRange(2, 4).Draw(t, "expire"),
			Millis:    rapid.SampledFrom([]int{120, 250, 400}).Draw(t, "millis"),
		}
	}, Sample: func(c c20BoxCase, o *vh.Outcome) interface{} {
		return map[string]interface{}{"case": c, "info": o.Info}
	}}.Main(t)
}
