package checks

import (
	"context"
	"crypto/sha256"
	"fmt"
	"github.com/IBM/TSS/mpc/ps"
	math "github.com/IBM/mathlib"
	"math/rand"
	"os"
	"runtime"
	"sync"
	"sync/atomic"
	"testing"
	"time"

	"github.com/IBM/TSS/threshold"
	tss "github.com/IBM/TSS/types"
	"pgregory.net/rapid"

	"verif/core/backends"
	"verif/vh"
)

// C20: concurrent use of the public API is free of data races (DESIGN.md §3
// C20). Built with -race; real time; one dispatcher goroutine per incoming link
// of every node, so HandleMessage runs concurrently inside one node. The oracle
// is the race detector (GORACE=halt_on_error=1) and the runtime's concurrent
// map checks; completion is counted, not judged.

type c20Case struct {
	N       int
	Silent  bool
	Backend string // bls | ps | rec
	Signs   int    // concurrent signing sessions after the key generation (0..2)
	Seed    int    // jitter seed
	Early   bool   // a participant also sends early / duplicated / out-of-phase copies of its own traffic
	Jitter  int    // max jitter in microseconds
	// SlowSetup: the signer's SetShareData takes 20 ms longer (a slow disk / a large key), which widens the window in
	// which a signing instance is being set up while traffic for its topic arrives
	SlowSetup bool `json:",omitempty"`
	Flood     bool // a second key generation during which recorded protocol frames of participant 1 are replayed in a tight loop from the very start
}

func genC20(t *rapid.T) c20Case {
	c := genC20Free(t)
	if rapid.IntRange(0, 3).Draw(t, "template") == 0 {
		// template "signers are set up under cross traffic": loud mode (in silent mode the buffer holds everything back until the
		// node's own first message), two signing sessions, slow set-up, participant 1's key-generation frames replayed under the
		// signing topics
		c.Silent, c.Signs, c.Flood, c.SlowSetup, c.Early = false, 2, true, true, true
	}
	return c
}

func genC20Free(t *rapid.T) c20Case {
	return c20Case{
		N:         rapid.IntRange(3, 4).Draw(t, "n"),
		Silent:    rapid.Bool().Draw(t, "silent"),
		Backend:   rapid.SampledFrom([]string{"bls", "bls", "rec", "rec", "ps"}).Draw(t, "backend"),
		Signs:     rapid.IntRange(0, 2).Draw(t, "signs"),
		Seed:      rapid.IntRange(1, 1<<30).Draw(t, "seed"),
		Early:     rapid.Bool().Draw(t, "early"),
		Jitter:    rapid.SampledFrom([]int{0, 20, 200}).Draw(t, "jitter"),
		Flood:     rapid.Bool().Draw(t, "flood"),
		SlowSetup: rapid.Bool().Draw(t, "slowsetup"),
	}
}

// slowSetupSigner delays SetShareData; everything else is the wrapped signer's.
type slowSetupSigner struct {
	tss.Signer
	inSetup *int32
	// setupState: set-up state of the instance that OnMsg reads - plain memory without a lock of its own, exactly like
	// ps.TPS.publicKeysOfParties (written by SetShareData, read by OnMsg). If the orchestrator lets a message reach the instance
	// while its SetShareData is still running, the race detector reports the pair.
	setupState *int
	overlaps   *int32 // OnMsg calls that ran while SetShareData of the same instance had not returned yet (evidence only)
}

func (s slowSetupSigner) SetShareData(d []byte) error {
	atomic.StoreInt32(s.inSetup, 1)
	defer atomic.StoreInt32(s.inSetup, 0)
	time.Sleep(20 * time.Millisecond)
	*s.setupState++
	return s.Signer.SetShareData(d)
}

func (s slowSetupSigner) OnMsg(b []byte, from uint16, bc bool) {
	if *s.setupState < 0 {
		return
	}
	if atomic.LoadInt32(s.inSetup) == 1 {
		atomic.AddInt32(s.overlaps, 1)
	}
	s.Signer.OnMsg(b, from, bc)
}

type rtFrame struct {
	from    uint16
	msgType uint8
	topic   []byte
	data    []byte
}

// rtNet: real-time network with one dispatcher goroutine per link.
type rtNet struct {
	mu       sync.Mutex
	links    map[[2]uint16]chan rtFrame
	handlers map[uint16]func(*tss.IncMessage)
	stop     chan struct{}
	wg       sync.WaitGroup
	seed     int64
	jitter   int
	inside   map[uint16]*int32 // gauge: dispatchers currently inside HandleMessage of a node
	overlaps int32
	tap      func(to uint16, f rtFrame)
}

func newRTNet(seed int64, jitter int) *rtNet {
	return &rtNet{links: map[[2]uint16]chan rtFrame{}, handlers: map[uint16]func(*tss.IncMessage){}, stop: make(chan struct{}), seed: seed, jitter: jitter, inside: map[uint16]*int32{}}
}

func (n *rtNet) attach(id uint16, h func(*tss.IncMessage)) {
	n.mu.Lock()
	n.handlers[id] = h
	var g int32
	n.inside[id] = &g
	n.mu.Unlock()
}

func (n *rtNet) link(from, to uint16) chan rtFrame {
	n.mu.Lock()
	defer n.mu.Unlock()
	k := [2]uint16{from, to}
	if ch, ok := n.links[k]; ok {
		return ch
	}
	ch := make(chan rtFrame, 4096)
	n.links[k] = ch
	h := n.handlers[to]
	gauge := n.inside[to]
	rng := rand.New(rand.NewSource(n.seed + int64(from)*1000 + int64(to)))
	n.wg.Add(1)
	go func() {
		defer n.wg.Done()
		for {
			select {
			case <-n.stop:
				return
			case f := <-ch:
				if n.jitter > 0 {
					switch rng.Intn(3) {
					case 0:
						runtime.Gosched()
					case 1:
						time.Sleep(time.Duration(rng.Intn(n.jitter)) * time.Microsecond)
					}
				}
				if h == nil || gauge == nil {
					continue
				}
				if atomic.AddInt32(gauge, 1) > 1 {
					atomic.AddInt32(&n.overlaps, 1)
				}
				h(&tss.IncMessage{Source: f.from, MsgType: f.msgType, Topic: append([]byte(nil), f.topic...), Data: append([]byte(nil), f.data...)})
				atomic.AddInt32(gauge, -1)
			}
		}
	}()
	return ch
}

func (n *rtNet) sendFunc(from uint16) func(msgType uint8, topic []byte, msg []byte, to ...uint16) {
	return func(msgType uint8, topic []byte, msg []byte, to ...uint16) {
		for _, dst := range to {
			n.mu.Lock()
			_, ok := n.handlers[dst]
			tap := n.tap
			n.mu.Unlock()
			if !ok {
				continue
			}
			// like the library's own transport, the link queues the caller's slices and reads them when the frame is
			// written out (here: when it is delivered); a sender that reuses a buffer after Send races with that read
			f := rtFrame{from: from, msgType: msgType, topic: topic, data: msg}
			if tap != nil {
				tap(dst, rtFrame{from: from, msgType: msgType, topic: append([]byte(nil), topic...), data: append([]byte(nil), msg...)})
			}
			select {
			case n.link(from, dst) <- f:
			default: // queue full: drop (never block library goroutines on the harness)
			}
		}
	}
}

func (n *rtNet) close() {
	close(n.stop)
	n.wg.Wait()
}

type c20Info struct {
	Overlaps      int
	KeyGenOK      int
	SignOK        int
	EarlyInjected int
	UnsortedViews int
	// OnMsgDuringSetup: hand-offs to a signing instance whose SetShareData had not returned yet
	OnMsgDuringSetup int32
}

var c20SyncOnce sync.Once

func runC20(c c20Case) *vh.Outcome {
	o := &vh.Outcome{}
	info := &c20Info{}
	o.Info = info
	var injected, unsorted int32
	// set once for the whole process and never restored: goroutines that a given-up Sign leaves behind may still read it when
	// the case ends (restoring it per case was a write racing with those reads - a race of the harness's own making)
	c20SyncOnce.Do(func() { threshold.SyncInterval = 2 * time.Millisecond })

	all := u16s(seq(1, c.N))
	net := newRTNet(int64(c.Seed), c.Jitter)
	tape := &backends.Tape{}
	kgf, sf := c11Factories(c.Backend, all, 2, tape)
	if c.SlowSetup {
		sf0 := sf
		sf = func(node uint16) tss.SignerFactory {
			f := sf0(node)
			return func(id uint16) tss.Signer {
				return slowSetupSigner{f(id), new(int32), new(int), &info.OnMsgDuringSetup}
			}
		}
	}
	membership := func() map[tss.UniversalID]tss.PartyID {
		m := map[tss.UniversalID]tss.PartyID{}
		for _, id := range all {
			m[tss.UniversalID(id)] = tss.PartyID(id)
		}
		return m
	}
	parties := map[uint16]tss.MpcParty{}
	for _, id := range all {
		var p tss.MpcParty
		lg := &quietLogger{}
		if c.Silent {
			p = threshold.SilentScheme(id, lg, kgf(id), sf(id), c.N-1, net.sendFunc(id), membership, func([]byte, int) []uint16 { return append([]uint16(nil), all...) })
		} else {
			p = threshold.LoudScheme(id, lg, kgf(id), sf(id), c.N-1, net.sendFunc(id), membership)
		}
		parties[id] = p
		net.attach(id, p.HandleMessage)
	}
	// early / duplicated / out-of-phase traffic: copies of what participant 1 sends are re-sent by an extra goroutine,
	// immediately and again later, to every other node (under participant 1's source)
	var earlyWG sync.WaitGroup
	if c.Early {
		earlyCh := make(chan struct {
			to uint16
			f  rtFrame
		}, 4096)
		net.mu.Lock()
		net.tap = func(to uint16, f rtFrame) {
			if f.from == 1 && (f.msgType == uint8(tss.MsgTypeMPC) || f.msgType == uint8(tss.MsgTypeSync)) {
				select {
				case earlyCh <- struct {
					to uint16
					f  rtFrame
				}{to, f}:
				default:
				}
			}
		}
		net.mu.Unlock()
		earlyWG.Add(1)
		go func() {
			defer earlyWG.Done()
			rng := rand.New(rand.NewSource(int64(c.Seed) * 7))
			var seen []rtFrame
			for {
				select {
				case <-net.stop:
					return
				case e := <-earlyCh:
					seen = append(seen, e.f)
					if atomic.LoadInt32(&injected) > 400 {
						continue
					}
					// duplicate to the same node and a copy to another node, plus an older frame again
					for k := 0; k < 2; k++ {
						dst := all[rng.Intn(len(all))]
						if dst == 1 {
							continue
						}
						g := e.f
						if k == 1 && len(seen) > 1 {
							g = seen[rng.Intn(len(seen))]
						}
						if g.msgType == uint8(tss.MsgTypeSync) && c.Seed%2 == 0 && atomic.LoadInt32(&unsorted) < 6 && len(g.data) >= 33+4 && (len(g.data)-33)%2 == 0 {
							// out-of-phase synchroniser traffic of a misbehaving participant: the same announcement with its
							// member list reversed (an unsorted view under a valid tag), as membership / query / response
							d := append([]byte(nil), g.data[:33]...)
							for i := len(g.data) - 2; i >= 33; i -= 2 {
								d = append(d, g.data[i], g.data[i+1])
							}
							d[0] = byte(1 + rng.Intn(3))
							g = rtFrame{from: g.from, msgType: g.msgType, topic: g.topic, data: d}
							atomic.AddInt32(&unsorted, 1)
						}
						select {
						case net.link(1, dst) <- g:
							atomic.AddInt32(&injected, 1)
						default:
						}
					}
				}
			}
		}()
	}

	var recMu sync.Mutex
	var recorded []rtFrame
	if c.Flood {
		net.mu.Lock()
		prev := net.tap
		net.tap = func(to uint16, f rtFrame) {
			if prev != nil {
				prev(to, f)
			}
			if f.from == 1 && f.msgType == uint8(tss.MsgTypeMPC) {
				recMu.Lock()
				if len(recorded) < 400 {
					recorded = append(recorded, f)
				}
				recMu.Unlock()
			}
		}
		net.mu.Unlock()
	}
	run := func(name string, f func(id uint16, ctx context.Context) error, ids []uint16, timeout time.Duration) int {
		ctx, cancel := context.WithTimeout(context.Background(), timeout)
		defer cancel()
		var wg sync.WaitGroup
		var ok int32
		rng := rand.New(rand.NewSource(int64(c.Seed) + 99))
		for _, id := range ids {
			id := id
			// staggered starts, up to several synchronisation intervals apart: traffic of early starters reaches nodes
			// that have not made their first API call yet
			delay := []time.Duration{0, 0, time.Millisecond, 5 * time.Millisecond, 15 * time.Millisecond}[rng.Intn(5)] + time.Duration(rng.Intn(1+c.Jitter*5))*time.Microsecond
			wg.Add(1)
			go func() {
				defer wg.Done()
				time.Sleep(delay) // staggered starts: traffic reaches nodes that have not started yet
				if err := f(id, ctx); err == nil {
					atomic.AddInt32(&ok, 1)
				}
			}()
		}
		wg.Wait()
		return int(ok)
	}
	shares := map[uint16][]byte{}
	var smu sync.Mutex
	info.KeyGenOK = run("keygen", func(id uint16, ctx context.Context) error {
		d, err := parties[id].KeyGen(ctx, c.N, 2)
		if err == nil {
			smu.Lock()
			shares[id] = d
			smu.Unlock()
		}
		return err
	}, all, 6*time.Second)
	if c.Flood {
		// second key generation under a flood of the first one's protocol frames (same fixed topic): out-of-phase
		// shares, commitments, reveals and acks hit every window of the session set-up
		recMu.Lock()
		frames := append([]rtFrame(nil), recorded...)
		recMu.Unlock()
		// the rare frame kinds (reveals and commitments of the built-in DKGs: 0xFF | 3 / 2) are replayed far more often than the
		// acknowledgements that make up most of the recording
		var rare []rtFrame
		for _, f := range frames {
			if len(f.data) > 2 && f.data[0] == 0xFF && (f.data[1] == 3 || f.data[1] == 2) {
				rare = append(rare, f)
			}
		}
		for i := 0; i < 12 && len(rare) > 0; i++ {
			frames = append(frames, rare...)
		}
		stopFlood := make(chan struct{})
		var fwg sync.WaitGroup
		if len(frames) > 0 {
			fwg.Add(1)
			go func() {
				defer fwg.Done()
				for i := 0; i < 6000; i++ {
					select {
					case <-stopFlood:
						return
					default:
					}
					f := frames[i%len(frames)]
					for _, dst := range all {
						if dst != 1 {
							select {
							case net.link(1, dst) <- f:
								atomic.AddInt32(&injected, 1)
							default:
							}
						}
					}
					if i%16 == 0 {
						runtime.Gosched()
					}
				}
			}()
		}
		second := run("keygen2", func(id uint16, ctx context.Context) error {
			_, err := parties[id].KeyGen(ctx, c.N, 2)
			return err
		}, all, 1500*time.Millisecond)
		close(stopFlood)
		fwg.Wait()
		if second == c.N {
			o.Classes = append(o.Classes, "flooded-keygen-completed(not judged)")
		}
	}
	signInput := []byte("0123456789abcdef0123456789abcdef")
	canSign := info.KeyGenOK == c.N && c.Signs > 0
	if canSign && c.Backend == "ps" {
		// a valid blinded request as the thing to sign
		canSign = false
		tp := &ps.TPS{Curve: math.Curves[1], Party: 1, Logger: &quietLogger{}, MessageLength: 1}
		tp.Init(all, 2, nil)
		if tp.SetShareData(shares[1]) == nil {
			if tpk, err := tp.ThresholdPK(); err == nil {
				var prover ps.Prover
				prover.Logger = &quietLogger{}
				if prover.Init(math.Curves[1], 1, tpk, all) == nil {
					req, _ := prover.Blind([][]byte{[]byte("m")})
					signInput = req.Bytes()
					canSign = true
				}
			}
		}
	}
	if canSign {
		for _, id := range all {
			parties[id].SetStoredData(shares[id]) // only between sessions
		}
		var swg sync.WaitGroup
		var sok int32
		// out-of-phase traffic for the signing sessions: participant 1's key-generation frames (shares, commitments,
		// revealed keys) again, under the topics of the signing sessions, while the signing instances are being set up
		stopCross := make(chan struct{})
		var cwg sync.WaitGroup
		recMu.Lock()
		var dkgFrames []rtFrame
		firstOfClass := map[byte]string{} // one payload per broadcast class: a second, different one would only make the receivers' broadcast layer shut the sender out
		for _, f := range recorded {
			if len(f.data) >= 2 && f.data[0] == 0xFF && f.data[1] >= 2 {
				if first, ok := firstOfClass[f.data[1]]; !ok {
					firstOfClass[f.data[1]] = string(f.data)
				} else if first != string(f.data) {
					continue
				}
			}
			dkgFrames = append(dkgFrames, f)
		}
		recMu.Unlock()
		if c.Flood && len(dkgFrames) > 0 {
			cwg.Add(1)
			go func() {
				defer cwg.Done()
				for i := 0; i < 400000; i++ { // until the signing sessions are over (stopCross)
					select {
					case <-stopCross:
						return
					default:
					}
					f := dkgFrames[i%len(dkgFrames)]
					if len(f.data) < 2 || f.data[0] != 0xFF {
						continue
					}
					tp := sha256.Sum256([]byte(fmt.Sprintf("c20-topic-%d", i%c.Signs)))
					g := rtFrame{from: 1, msgType: f.msgType, topic: tp[:], data: f.data}
					for _, dst := range all {
						if dst != 1 {
							select {
							case net.link(1, dst) <- g:
								atomic.AddInt32(&injected, 1)
							default:
							}
						}
					}
					if i%8 == 0 {
						time.Sleep(50 * time.Microsecond)
					}
				}
			}()
		}
		for s := 0; s < c.Signs; s++ {
			s := s
			swg.Add(1)
			go func() {
				defer swg.Done()
				n := run("sign", func(id uint16, ctx context.Context) error {
					_, err := parties[id].Sign(ctx, signInput, fmt.Sprintf("c20-topic-%d", s))
					return err
				}, all, 2500*time.Millisecond)
				atomic.AddInt32(&sok, int32(n))
			}()
		}
		swg.Wait()
		close(stopCross)
		cwg.Wait()
		info.SignOK = int(sok)
		if c.SlowSetup {
			// a Sign that is given up while its signer is still being set up; then - between sessions, as an application may -
			// the stored data is set again, while whatever the given-up Sign left behind winds down
			ctx, cancel := context.WithTimeout(context.Background(), 15*time.Millisecond)
			var gwg sync.WaitGroup
			for _, id := range all {
				id := id
				gwg.Add(1)
				go func() {
					defer gwg.Done()
					_, _ = parties[id].Sign(ctx, signInput, "c20-topic-given-up")
				}()
			}
			gwg.Wait()
			cancel()
			for _, id := range all {
				parties[id].SetStoredData(shares[id])
			}
			time.Sleep(60 * time.Millisecond)
			o.Classes = append(o.Classes, "stored-data-set-again-after-a-given-up-sign")
		}
	}
	net.close()
	earlyWG.Wait()
	for _, p := range parties {
		if s, ok := p.(interface{ Stop() }); ok {
			func() { defer func() { _ = recover() }(); s.Stop() }()
		}
	}
	info.Overlaps = int(atomic.LoadInt32(&net.overlaps))
	info.EarlyInjected = int(atomic.LoadInt32(&injected))
	info.UnsortedViews = int(atomic.LoadInt32(&unsorted))
	if info.UnsortedViews > 0 {
		o.Classes = append(o.Classes, "unsorted-synchroniser-views-injected")
	}
	o.Key = fmt.Sprintf("%+v", c)
	o.NonTrivial = info.Overlaps > 0 || info.EarlyInjected > 0
	o.Classes = append(o.Classes, "backend="+c.Backend, fmt.Sprintf("silent=%v", c.Silent))
	if atomic.LoadInt32(&info.OnMsgDuringSetup) > 0 {
		o.Classes = append(o.Classes, "message-handed-to-signer-during-its-set-up")
	}
	if os.Getenv("VERIF_DEBUG") != "" {
		fmt.Fprintf(os.Stderr, "C20 debug: %+v\n", *info)
	}
	if info.Overlaps > 0 {
		o.Classes = append(o.Classes, "concurrent-HandleMessage-in-one-node")
	}
	if info.EarlyInjected > 0 {
		o.Classes = append(o.Classes, "early-duplicate-traffic")
	}
	if info.KeyGenOK == c.N {
		o.Classes = append(o.Classes, "keygen-completed(not judged)")
	}
	if c.Signs > 0 && info.SignOK == c.N*c.Signs {
		o.Classes = append(o.Classes, "all-signs-completed(not judged)")
	}
	return o
}

// quietLogger is a race-free no-op logger.
type quietLogger struct{}

func (quietLogger) DebugEnabled() bool            { return false }
func (quietLogger) Debugf(string, ...interface{}) {}
func (quietLogger) Infof(string, ...interface{})  {}
func (quietLogger) Warnf(string, ...interface{})  {}
func (quietLogger) Errorf(string, ...interface{}) {}

func TestC20(t *testing.T) {
	vh.Prop[c20Case]{ID: "C20", Test: "TestC20", Gen: genC20, Run: runC20}.Main(t)
}
