package checks

import (
	"testing"

	"verif/vh"
)

// Native, coverage-guided fuzz targets (thorough tier only): the same generators
// and oracles as the rapid checks, with Go's fuzzer mutating the generators'
// random stream (DESIGN.md §2.6). A failure is recorded as the JSON case and
// replays through the plain test of the property.

func setT(t *testing.T) { theT = t }

func FuzzC10Crypto(f *testing.F) {
	vh.Prop[c10CryptoCase]{ID: "C10", Test: "TestC10Crypto", Gen: genC10Crypto, Run: runC10Crypto}.Fuzz(f, "FuzzC10Crypto", setT)
}

func FuzzC10Loud(f *testing.F) {
	vh.Prop[c10StackCase]{ID: "C10", Test: "TestC10Loud", Gen: genC10Stack(false), Run: runC10Stack}.Fuzz(f, "FuzzC10Loud", setT)
}

func FuzzC10Silent(f *testing.F) {
	vh.Prop[c10StackCase]{ID: "C10", Test: "TestC10Silent", Gen: genC10Stack(true), Run: runC10Stack}.Fuzz(f, "FuzzC10Silent", setT)
}

func FuzzC05B(f *testing.F) {
	vh.Prop[c05Case]{ID: "C05", Test: "TestC05B", Gen: genC05(4), Run: runC05}.Fuzz(f, "FuzzC05B", setT)
}

func FuzzC07Byz(f *testing.F) {
	vh.Prop[c07Case]{ID: "C07", Test: "TestC07Byz", Gen: genC07(true), Run: runC07}.Fuzz(f, "FuzzC07Byz", setT)
}

func FuzzC15(f *testing.F) {
	vh.Prop[c15Case]{ID: "C15", Test: "TestC15", Gen: genC15(120), Run: runC15}.Fuzz(f, "FuzzC15", setT)
}

func FuzzC12(f *testing.F) {
	vh.Prop[c12Case]{ID: "C12", Test: "TestC12", Gen: genC12, Run: runC12}.Fuzz(f, "FuzzC12", setT)
}

func FuzzC06(f *testing.F) {
	vh.Prop[c06Case]{ID: "C06", Test: "TestC06", Gen: genC06, Run: runC06}.Fuzz(f, "FuzzC06", setT)
}

func FuzzC02R(f *testing.F) {
	vh.Prop[rCase]{ID: "C02", Test: "TestC02R", Gen: genRCase(true, 5), Run: runRCase("C02")}.Fuzz(f, "FuzzC02R", setT)
}

func FuzzC03R(f *testing.F) {
	vh.Prop[rCase]{ID: "C03", Test: "TestC03R", Gen: genRCase(true, 5), Run: runRCase("C03")}.Fuzz(f, "FuzzC03R", setT)
}

func FuzzC04R(f *testing.F) {
	vh.Prop[rCase]{ID: "C04", Test: "TestC04R", Gen: genRCase(false, 5), Run: runRCase("C04")}.Fuzz(f, "FuzzC04R", setT)
}

func FuzzC02S(f *testing.F) {
	vh.Prop[sCase]{ID: "C02", Test: "TestC02S", Gen: genSCase(true), Run: runSCase("C02")}.Fuzz(f, "FuzzC02S", setT)
}

func FuzzC03S(f *testing.F) {
	vh.Prop[sCase]{ID: "C03", Test: "TestC03S", Gen: genSCase(true), Run: runSCase("C03")}.Fuzz(f, "FuzzC03S", setT)
}

func FuzzC04S(f *testing.F) {
	vh.Prop[sCase]{ID: "C04", Test: "TestC04S", Gen: genSCase(false), Run: runSCase("C04")}.Fuzz(f, "FuzzC04S", setT)
}
