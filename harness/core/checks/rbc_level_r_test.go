package checks

import (
	"crypto/sha256"
	"fmt"
	"runtime/debug"
	"sort"
	"testing"

	"github.com/IBM/TSS/rbc"
	"pgregory.net/rapid"

	"verif/core/sim"
	"verif/vh"
)

// Level R of C02/C03/C04 (DESIGN.md §3): rbc.Receiver instances wired by the
// harness. Everything is synchronous, so no bubble is needed.

// rPayload is what a (possibly Byzantine) sender transmits. Round, class and
// digest are functions of the payload, as in the real stack where the
// receiver classifies and hashes what it received.
type rPayload struct {
	Round uint8
	Bcast bool
	Body  string
}

func (p rPayload) bytes() []byte { return []byte(fmt.Sprintf("%d|%v|%s", p.Round, p.Bcast, p.Body)) }

// digest: sha256 of the payload, except for the bodies "P<k>x" / "S<k>x" whose digests are forced
// to share their first / last k bytes with the other bodies of that family (still distinct digests:
// a conflict check that compares only part of the digest must not get away with it).
func (p rPayload) digest() []byte {
	d := sha256.Sum256(p.bytes())
	out := d[:]
	var k int
	var x byte
	if n, _ := fmt.Sscanf(p.Body, "P%d%c", &k, &x); n == 2 && k > 0 && k < 32 {
		for i := 0; i < k; i++ {
			out[i] = 0xAB
		}
	} else if n, _ := fmt.Sscanf(p.Body, "S%d%c", &k, &x); n == 2 && k > 0 && k < 32 {
		for i := 32 - k; i < 32; i++ {
			out[i] = 0xCD
		}
	}
	return out
}

// rMsg implements rbc.Message.
type rMsg struct {
	isAck   bool
	payload rPayload
	// ack fields
	ackDigest []byte
	ackSender uint16
	ackRound  uint8
}

func (m *rMsg) Round() uint8       { return m.payload.Round }
func (m *rMsg) Digest() []byte     { return m.payload.digest() }
func (m *rMsg) WasBroadcast() bool { return m.payload.Bcast }
func (m *rMsg) Ack() ([]byte, uint16, uint8) {
	if !m.isAck {
		return nil, 0, 0
	}
	return m.ackDigest, m.ackSender, m.ackRound
}

type rFrame struct {
	From, To uint16
	M        *rMsg
	Seq      int
}

// generated case ------------------------------------------------------------

type rSend struct { // an honest party transmits
	Sender int // index into honest list
	Round  int
	Bcast  bool
	To     int // for p2p: index into parties (skipping self)
	Body   string
}

type rMove struct { // adversary move
	Kind   int // 0 payload, 1 ack, 2 replay, 3 p2p
	From   int // index into Byzantine list
	To     int // index into honest list
	Round  int
	Body   int // payload body selector
	About  int // ack: 0 itself, 1 other byz, 2 an honest party, 3 the receiver, 4 outsider id, 5 the sender of payload Ref
	Ref    int // ack: index into the payloads transmitted so far (sender, round, digest are copied from it)
	AboutI int
	Digest int // ack digest: 0 payload in play (Ref), 1 never sent, 2 random 32 bytes, 3 short (1..7 bytes), 4 long (33..40)
	Replay int // replay: index into the log
}

type rCase struct {
	N      int
	Byz    []int // party ids (1-based) that are Byzantine
	Sends  []rSend
	Moves  []rMove
	Choice []int
	// W: scheduling weights for [deliveries from honest senders, deliveries
	// from Byzantine senders, next honest send, next adversary move]; index
	// into {1,1,8,64,0} (0 = only when nothing else is enabled).
	W [4]int
}

type rHandoff struct {
	P, From uint16
	M       *rMsg
	Nil     bool
	AtStep  int
}

type rWorld struct {
	n        int
	honest   []uint16
	byz      []uint16
	isByz    map[uint16]bool
	recv     map[uint16]*rbc.Receiver
	queues   map[[2]uint16][]*rFrame
	log      []*rFrame
	seq      int
	handoffs []rHandoff
	// delivered[(from,to)] = payload frames delivered so far
	direct           map[[2]uint16][]*rFrame
	step             int
	panic_           string
	ackBeforePayload int
}

func (w *rWorld) enqueue(from, to uint16, m *rMsg) {
	f := &rFrame{From: from, To: to, M: m, Seq: w.seq}
	w.seq++
	w.log = append(w.log, f)
	k := [2]uint16{from, to}
	w.queues[k] = append(w.queues[k], f)
}

func newRWorld(n int, byzIDs []int) *rWorld {
	w := &rWorld{n: n, isByz: map[uint16]bool{}, recv: map[uint16]*rbc.Receiver{}, queues: map[[2]uint16][]*rFrame{}, direct: map[[2]uint16][]*rFrame{}}
	for _, b := range byzIDs {
		w.isByz[uint16(b)] = true
	}
	for i := 1; i <= n; i++ {
		id := uint16(i)
		if w.isByz[id] {
			w.byz = append(w.byz, id)
			continue
		}
		w.honest = append(w.honest, id)
		r := &rbc.Receiver{SelfID: id, N: n, Logger: &sim.Logger{}}
		r.ForwardToBackend = func(msg interface{}, from uint16) {
			h := rHandoff{P: id, From: from, AtStep: w.step}
			if m, ok := msg.(*rMsg); ok && m != nil {
				h.M = m
			} else {
				h.Nil = true
			}
			w.handoffs = append(w.handoffs, h)
		}
		r.BroadcastAck = func(digest string, sender uint16, round uint8) {
			for j := 1; j <= n; j++ {
				if uint16(j) == id {
					continue
				}
				w.enqueue(id, uint16(j), &rMsg{isAck: true, ackDigest: []byte(digest), ackSender: sender, ackRound: round})
			}
		}
		w.recv[id] = r
	}
	return w
}

func (w *rWorld) pending() [][2]uint16 {
	var ks [][2]uint16
	for k, q := range w.queues {
		if len(q) > 0 && !w.isByz[k[1]] {
			ks = append(ks, k)
		}
	}
	sort.Slice(ks, func(i, j int) bool {
		if ks[i][0] != ks[j][0] {
			return ks[i][0] < ks[j][0]
		}
		return ks[i][1] < ks[j][1]
	})
	return ks
}

func (w *rWorld) deliver(k [2]uint16) {
	q := w.queues[k]
	f := q[0]
	w.queues[k] = q[1:]
	r := w.recv[f.To]
	if r == nil {
		return
	}
	if !f.M.isAck {
		w.direct[k] = append(w.direct[k], f)
	} else {
		// statistics: ack delivered before the payload it refers to
		seen := false
		for _, g := range w.direct[[2]uint16{f.M.ackSender, f.To}] {
			if string(g.M.Digest()) == string(f.M.ackDigest) {
				seen = true
			}
		}
		if !seen {
			w.ackBeforePayload++
		}
	}
	func() {
		defer func() {
			if rec := recover(); rec != nil && w.panic_ == "" {
				w.panic_ = fmt.Sprintf("Receive(from=%d to=%d ack=%v) panicked: %v\n%s", f.From, f.To, f.M.isAck, rec, shortStack())
			}
		}()
		r.Receive(f.M, f.From)
	}()
}

func shortStack() string {
	s := string(debug.Stack())
	if len(s) > 2500 {
		s = s[:2500]
	}
	return s
}

func genRCase(byzantine bool, maxN int) func(t *rapid.T) rCase {
	return func(t *rapid.T) rCase {
		var c rCase
		// Byzantine cases go down to a single honest receiver among n >= 2 (a two-party session with a Byzantine peer, or
		// everybody else colluding): what is handed to ITS backend is still bound by C03
		c.N = rapid.IntRange(2, maxN).Draw(t, "n")
		if byzantine {
			f := rapid.IntRange(1, c.N-1).Draw(t, "f")
			if c.N > 2 && f == c.N-1 && rapid.IntRange(0, 2).Draw(t, "keep2honest") != 0 {
				f = c.N - 2
			}
			perm := rapid.Permutation(seq(1, c.N)).Draw(t, "byzperm")
			c.Byz = sortedInts(perm[:f])
		}
		nh := c.N - len(c.Byz)
		ns := rapid.IntRange(0, 6).Draw(t, "nsends")
		if !byzantine {
			ns = rapid.IntRange(1, 9).Draw(t, "nsends")
		}
		for i := 0; i < ns; i++ {
			c.Sends = append(c.Sends, rSend{
				Sender: rapid.IntRange(0, nh-1).Draw(t, "sender"),
				Round:  rapid.IntRange(1, 3).Draw(t, "round"),
				Bcast:  rapid.IntRange(0, 3).Draw(t, "bc") != 0,
				To:     rapid.IntRange(0, c.N-2).Draw(t, "to"),
				Body:   rapid.SampledFrom([]string{"a", "b", "c"}).Draw(t, "body"),
			})
		}
		if byzantine {
			if rapid.IntRange(0, 3).Draw(t, "template") == 0 {
				// attack template: different payloads to two honest parties, then
				// acknowledgements that refer to them; random moves follow.
				r := rapid.IntRange(1, 2).Draw(t, "tround")
				from := rapid.IntRange(0, len(c.Byz)-1).Draw(t, "tfrom")
				v1 := rapid.IntRange(0, nh-1).Draw(t, "tv1")
				v2 := rapid.IntRange(0, nh-1).Draw(t, "tv2")
				c.Moves = append(c.Moves,
					rMove{Kind: 0, From: from, To: v1, Round: r, Body: 0},
					rMove{Kind: 0, From: from, To: v2, Round: r, Body: rapid.IntRange(0, 1).Draw(t, "tb")})
				na := rapid.IntRange(0, 4).Draw(t, "tacks")
				for i := 0; i < na; i++ {
					c.Moves = append(c.Moves, rMove{Kind: 1, From: rapid.IntRange(0, len(c.Byz)-1).Draw(t, "tafrom"), To: rapid.IntRange(0, nh-1).Draw(t, "tato"), Round: r, About: 5, Ref: rapid.IntRange(0, 1).Draw(t, "taref")})
				}
			}
			if rapid.IntRange(0, 5).Draw(t, "twins") == 0 {
				// both payloads of a partial-collision family to two honest parties, in opposite orders
				fam := rapid.SampledFrom([]int{3, 5, 7, 9}).Draw(t, "family")
				r := rapid.IntRange(1, 2).Draw(t, "twround")
				from := rapid.IntRange(0, len(c.Byz)-1).Draw(t, "twfrom")
				v1 := rapid.IntRange(0, nh-1).Draw(t, "twv1")
				v2 := rapid.IntRange(0, nh-1).Draw(t, "twv2")
				c.Moves = append(c.Moves,
					rMove{Kind: 0, From: from, To: v1, Round: r, Body: fam}, rMove{Kind: 0, From: from, To: v1, Round: r, Body: fam + 1},
					rMove{Kind: 0, From: from, To: v2, Round: r, Body: fam + 1}, rMove{Kind: 0, From: from, To: v2, Round: r, Body: fam})
			}
			nm := rapid.IntRange(1, 14).Draw(t, "nmoves")
			for i := 0; i < nm; i++ {
				c.Moves = append(c.Moves, rMove{
					Kind:   rapid.SampledFrom([]int{0, 0, 0, 1, 1, 1, 1, 2, 2, 3}).Draw(t, "kind"),
					From:   rapid.IntRange(0, len(c.Byz)-1).Draw(t, "from"),
					To:     rapid.IntRange(0, nh-1).Draw(t, "to"),
					Round:  rapid.IntRange(1, 2).Draw(t, "round"),
					Body:   rapid.SampledFrom([]int{0, 0, 1, 1, 2, 3, 4, 5, 6, 7, 8, 9, 10}).Draw(t, "body"),
					About:  rapid.SampledFrom([]int{5, 5, 5, 5, 5, 5, 0, 1, 2, 3, 4}).Draw(t, "about"),
					AboutI: rapid.IntRange(0, 4).Draw(t, "aboutI"),
					Digest: rapid.SampledFrom([]int{0, 0, 0, 0, 0, 0, 1, 2, 3, 4}).Draw(t, "digest"),
					Ref:    rapid.IntRange(0, 30).Draw(t, "ref"),
					Replay: rapid.IntRange(0, 200).Draw(t, "replay"),
				})
			}
		}
		c.Choice = rapid.SliceOfN(rapid.IntRange(0, 1023), 0, 120).Draw(t, "choice")
		for i := range c.W {
			c.W[i] = rapid.IntRange(0, 4).Draw(t, "w")
		}
		return c
	}
}

var rBodies = []string{"X", "Y", "Z", "P4a", "P4b", "P16a", "P16b", "S16a", "S16b", "P31a", "P31b"}

// runRCase executes the case; prop selects which oracle's verdict is returned
// ("C02", "C03", "C04").
func runRCase(prop string) func(c rCase) *vh.Outcome {
	return func(c rCase) *vh.Outcome {
		o := &vh.Outcome{}
		w := newRWorld(c.N, c.Byz)
		si, mi, ci := 0, 0, 0
		next := func(total int) int {
			if ci < len(c.Choice) {
				v := c.Choice[ci]
				ci++
				return v % total
			}
			return 0
		}
		// honest parties send each (sender, round) broadcast at most once and
		// consecutive rounds in order: enforce by construction.
		sentRound := map[[2]int]bool{}
		equivocations, forgedAcks, replays := 0, 0, 0
		byzPayloads := map[[2]int]map[string]bool{} // (byz id, round) -> bodies sent as broadcast
		type inPlayT struct {
			sender uint16
			p      rPayload
		}
		var inPlay []inPlayT
		for {
			w.step++
			pend := w.pending()
			hasSend := si < len(c.Sends)
			hasMove := mi < len(c.Moves)
			wt := []int{1, 1, 8, 64, 0}
			ws := make([]int, 0, len(pend)+2)
			total := 0
			for _, l := range pend {
				x := wt[c.W[0]%5]
				if w.isByz[l[0]] {
					x = wt[c.W[1]%5]
				}
				ws = append(ws, x)
				total += x
			}
			if hasSend {
				ws = append(ws, wt[c.W[2]%5])
				total += wt[c.W[2]%5]
			}
			if hasMove {
				ws = append(ws, wt[c.W[3]%5])
				total += wt[c.W[3]%5]
			}
			if len(ws) == 0 {
				break
			}
			k := 0
			if total == 0 {
				k = next(len(ws))
			} else {
				v := next(total)
				for i, x := range ws {
					if v < x {
						k = i
						break
					}
					v -= x
				}
			}
			switch {
			case k < len(pend):
				w.deliver(pend[k])
			case hasSend && k == len(pend):
				s := c.Sends[si]
				si++
				from := w.honest[s.Sender%len(w.honest)]
				p := rPayload{Round: uint8(s.Round), Bcast: s.Bcast, Body: fmt.Sprintf("%s-from%d", s.Body, from)}
				if s.Bcast {
					if sentRound[[2]int{int(from), s.Round}] {
						continue // an honest party broadcasts once per round
					}
					sentRound[[2]int{int(from), s.Round}] = true
					inPlay = append(inPlay, inPlayT{from, p})
					for j := 1; j <= c.N; j++ {
						if uint16(j) != from {
							w.enqueue(from, uint16(j), &rMsg{payload: p})
						}
					}
				} else {
					// p2p to one other party
					var others []uint16
					for j := 1; j <= c.N; j++ {
						if uint16(j) != from {
							others = append(others, uint16(j))
						}
					}
					p.Body = fmt.Sprintf("%s-p2p%d", p.Body, si)
					w.enqueue(from, others[s.To%len(others)], &rMsg{payload: p})
				}
			default:
				m := c.Moves[mi]
				mi++
				from := w.byz[m.From%len(w.byz)]
				to := w.honest[m.To%len(w.honest)]
				body := rBodies[m.Body%len(rBodies)]
				switch m.Kind {
				case 0, 3:
					p := rPayload{Round: uint8(m.Round), Bcast: m.Kind == 0, Body: body}
					if m.Kind == 0 {
						key := [2]int{int(from), m.Round}
						if byzPayloads[key] == nil {
							byzPayloads[key] = map[string]bool{}
						}
						byzPayloads[key][body] = true
						if len(byzPayloads[key]) > 1 {
							equivocations++
						}
					}
					if m.Kind == 0 {
						inPlay = append(inPlay, inPlayT{from, p})
					}
					w.enqueue(from, to, &rMsg{payload: p})
				case 1:
					var about uint16
					round := uint8(m.Round)
					refDigest := rPayload{Round: uint8(m.Round), Bcast: true, Body: body}.digest()
					if len(inPlay) > 0 {
						ip := inPlay[m.Ref%len(inPlay)]
						refDigest = ip.p.digest()
						if m.About == 5 {
							round = ip.p.Round
						}
					}
					switch m.About {
					case 5:
						about = from
						if len(inPlay) > 0 {
							about = inPlay[m.Ref%len(inPlay)].sender
						}
					case 0:
						about = from
					case 1:
						about = w.byz[m.AboutI%len(w.byz)]
					case 2:
						about = w.honest[m.AboutI%len(w.honest)]
					case 3:
						about = to
					default:
						about = uint16(c.N + 1 + m.AboutI) // not a participant
					}
					var dg []byte
					switch m.Digest {
					case 0:
						dg = refDigest
					case 1:
						dg = rPayload{Round: uint8(m.Round), Bcast: true, Body: "never-sent"}.digest()
					case 3: // short digest (the wire format allows any length >= 1)
						dg = make([]byte, 1+m.Replay%7)
					case 4:
						dg = make([]byte, 33+m.Replay%8)
					default:
						dg = make([]byte, 32)
						for i := range dg {
							dg[i] = byte(m.Replay + i*7)
						}
					}
					forgedAcks++
					w.enqueue(from, to, &rMsg{isAck: true, ackDigest: dg, ackSender: about, ackRound: round})
				case 2:
					if len(w.log) > 0 {
						orig := w.log[m.Replay%len(w.log)]
						replays++
						w.enqueue(from, to, orig.M)
					}
				}
			}
			if w.panic_ != "" {
				break
			}
		}

		o.Key = fmt.Sprintf("%+v", c)
		o.Info = map[string]interface{}{"handoffs": len(w.handoffs), "frames": w.seq, "equivocations": equivocations, "forged_acks": forgedAcks, "replays": replays, "ack_before_payload": w.ackBeforePayload}
		if len(c.Byz) > 0 {
			o.NonTrivial = (equivocations > 0 || forgedAcks > 0 || replays > 0) && len(w.handoffs) > 0
			if equivocations > 0 {
				o.Classes = append(o.Classes, "equivocation")
			}
			if replays > 0 {
				o.Classes = append(o.Classes, "replay")
			}
			if forgedAcks > 0 {
				o.Classes = append(o.Classes, "forged-ack")
			}
		} else {
			senders := map[int]bool{}
			for k := range sentRound {
				senders[k[0]] = true
			}
			o.NonTrivial = w.ackBeforePayload > 0 && len(senders) >= 2
			if w.ackBeforePayload > 0 {
				o.Classes = append(o.Classes, "ack-before-payload")
			}
			if len(senders) >= 2 {
				o.Classes = append(o.Classes, "concurrent-senders")
			}
		}
		o.Classes = append(o.Classes, fmt.Sprintf("n=%d", c.N))
		if len(w.handoffs) > 0 {
			o.Classes = append(o.Classes, "some-handoff")
		}

		if w.panic_ != "" {
			// a panic inside the receiver on network-derived input: integrity/crash-freedom
			o.Fail = vh.Failf(prop+"/receiver-panic", "%s", w.panic_)
			return o
		}

		switch prop {
		case "C02":
			o.Fail = oracleC02(w)
		case "C03":
			o.Fail = oracleC03(w)
		case "C04":
			o.Fail = oracleC04(w, c)
		}
		return o
	}
}

func oracleC02(w *rWorld) *vh.Failure {
	type sr struct {
		s uint16
		r uint8
	}
	seen := map[sr]map[string]uint16{}
	for _, h := range w.handoffs {
		if h.Nil || !h.M.payload.Bcast {
			continue
		}
		k := sr{h.From, h.M.payload.Round}
		if seen[k] == nil {
			seen[k] = map[string]uint16{}
		}
		seen[k][string(h.M.payload.bytes())] = h.P
		if len(seen[k]) > 1 {
			return vh.Failf("C02/agreement/level-R", "honest parties handed different broadcast payloads for sender %d round %d to their backends: %v (N=%d byz=%v)", h.From, k.r, keysOf(seen[k]), w.n, w.byz)
		}
	}
	return nil
}

func keysOf(m map[string]uint16) []string {
	var r []string
	for k, p := range m {
		r = append(r, fmt.Sprintf("%q@party%d", k, p))
	}
	sort.Strings(r)
	return r
}

func oracleC03(w *rWorld) *vh.Failure {
	type psr struct {
		p, s uint16
		r    uint8
	}
	count := map[psr]int{}
	p2pSeen := map[[2]uint16]int{}
	for _, h := range w.handoffs {
		if h.Nil {
			return vh.Failf("C03/nil-handoff/level-R", "party %d handed an empty placeholder (nil message) attributed to sender %d to its backend (N=%d byz=%v)", h.P, h.From, w.n, w.byz)
		}
		if int(h.From) < 1 || int(h.From) > w.n {
			return vh.Failf("C03/non-participant/level-R", "party %d handed over a message attributed to non-participant %d", h.P, h.From)
		}
		if h.M.isAck {
			return vh.Failf("C03/ack-handoff/level-R", "party %d handed an acknowledgement to its backend", h.P)
		}
		if h.M.payload.Bcast {
			k := psr{h.P, h.From, h.M.payload.Round}
			count[k]++
			if count[k] > 1 {
				return vh.Failf("C03/duplicate-handoff/level-R", "party %d handed the broadcast of sender %d round %d to its backend %d times (N=%d byz=%v)", h.P, h.From, k.r, count[k], w.n, w.byz)
			}
			// directly transmitted by the attributed sender to this party, before the hand-off
			ok := false
			for _, f := range w.direct[[2]uint16{h.From, h.P}] {
				if string(f.M.payload.bytes()) == string(h.M.payload.bytes()) && f.M.payload.Bcast {
					ok = true
				}
			}
			if !ok {
				return vh.Failf("C03/not-directly-received/level-R", "party %d handed over broadcast %q attributed to %d which %d never transmitted to it directly", h.P, h.M.payload.bytes(), h.From, h.From)
			}
		} else {
			// p2p: must be the next undelivered p2p frame on link (from -> P)
			link := [2]uint16{h.From, h.P}
			idx := p2pSeen[link]
			var p2ps []*rFrame
			for _, f := range w.direct[link] {
				if !f.M.payload.Bcast {
					p2ps = append(p2ps, f)
				}
			}
			if idx >= len(p2ps) || string(p2ps[idx].M.payload.bytes()) != string(h.M.payload.bytes()) {
				return vh.Failf("C03/p2p-mismatch/level-R", "party %d: point-to-point hand-off #%d attributed to %d does not equal the frame received from it", h.P, idx, h.From)
			}
			p2pSeen[link] = idx + 1
		}
	}
	return nil
}

// oracleC04: all honest, everything delivered: every broadcast handed exactly
// once to every other party, every p2p exactly once to its addressee.
func oracleC04(w *rWorld, c rCase) *vh.Failure {
	type key struct {
		p    uint16
		body string
	}
	got := map[key]int{}
	for _, h := range w.handoffs {
		if h.Nil {
			return vh.Failf("C04/nil-handoff/level-R", "party %d handed a nil message to its backend in an all-honest run", h.P)
		}
		got[key{h.P, string(h.M.payload.bytes()) + fmt.Sprintf("/from%d", h.From)}]++
	}
	want := map[key]int{}
	for _, f := range w.log {
		if f.M.isAck {
			continue
		}
		want[key{f.To, string(f.M.payload.bytes()) + fmt.Sprintf("/from%d", f.From)}]++
	}
	for k, n := range want {
		if got[k] != n {
			return vh.Failf("C04/totality/level-R", "party %d was handed message %q %d times, expected %d (all honest, everything delivered, N=%d)", k.p, k.body, got[k], n, w.n)
		}
	}
	for k, n := range got {
		if want[k] != n {
			return vh.Failf("C04/spurious/level-R", "party %d was handed message %q %d times but it was sent to it %d times", k.p, k.body, n, want[k])
		}
	}
	return nil
}

func TestC02R(t *testing.T) {
	vh.Prop[rCase]{ID: "C02", Test: "TestC02R", Gen: genRCase(true, 5), Run: runRCase("C02")}.Main(t)
}

func TestC03R(t *testing.T) {
	vh.Prop[rCase]{ID: "C03", Test: "TestC03R", Gen: genRCase(true, 5), Run: runRCase("C03")}.Main(t)
}

func TestC04R(t *testing.T) {
	vh.Prop[rCase]{ID: "C04", Test: "TestC04R", Gen: genRCase(false, 5), Run: runRCase("C04")}.Main(t)
}
