package checks

import (
	"bytes"
	"context"
	"crypto/sha256"
	"fmt"
	"sort"
	"testing"
	"time"

	tss "github.com/IBM/TSS/types"
	"pgregory.net/rapid"

	"verif/core/backends"
	"verif/core/sim"
	"verif/core/stack"
	"verif/vh"
)

// Level S of C02/C03/C04 (DESIGN.md §3): the real orchestrator (wire decoding,
// receiver-side classification, digest recomputation, participant filter,
// thread-safety wrappers, rbc.Receiver) with the recorder backend. Byzantine
// participants run honest puppets for the synchronisation phases; the
// adversary injects additional MPC frames under their authenticated Source,
// and outsiders (configured non-participants, unknown nodes) send under theirs.

type sMove struct {
	Kind   int // 0 payload (broadcast class), 1 ack, 2 replay of a logged MPC frame, 3 point-to-point payload
	Src    int // 0..: Byzantine participant index; 100: configured outsider; 101: unknown node
	To     int // honest participant index
	Round  int
	Body   int
	About  int // ack: 0 the source itself, 1 a Byzantine participant, 2 an honest participant, 3 the receiver, 4 the outsider, 5 sender of payload Ref
	AboutI int
	Digest int // 0 payload Ref, 1 never sent, 2 random 32 bytes, 3 short, 4 long, 5 birthday twin of payload Ref (same 4-byte digest prefix)
	Ref    int
	Replay int
}

type sCase struct {
	N         int   // session participants 1..N
	Byz       []int // Byzantine participants (ids)
	Outsiders int   // configured members that are not session participants (ids N+1..)
	Op        string
	Silent    bool
	Rounds    []int // rec script: one broadcast per round, distinct rounds
	P2P       []bool
	Mute      []int // bit masks: Byzantine participant i's own MPC frames are dropped for the honest victims in the mask
	Moves     []sMove
	Sched     sim.Schedule
	// SlowInit: the backend of this participant (0 = none) spends SlowMs of virtual time inside Init - the others carry on
	SlowInit int `json:",omitempty"`
	SlowMs   int `json:",omitempty"`
}

func genSCase(byzantine bool) func(t *rapid.T) sCase {
	return func(t *rapid.T) sCase {
		var c sCase
		minN := 2
		if byzantine {
			minN = 3
		}
		c.N = rapid.IntRange(minN, 5).Draw(t, "n")
		if byzantine {
			f := rapid.IntRange(1, c.N-2).Draw(t, "f")
			c.Byz = sortedInts(rapid.Permutation(seq(1, c.N)).Draw(t, "byz")[:f])
		}
		c.Outsiders = rapid.IntRange(0, 2).Draw(t, "outsiders")
		c.Op = rapid.SampledFrom([]string{"keygen", "sign"}).Draw(t, "op")
		c.Silent = rapid.IntRange(0, 3).Draw(t, "silent") == 0
		nr := rapid.IntRange(1, 3).Draw(t, "nrounds")
		used := map[int]bool{}
		for len(c.Rounds) < nr {
			r := rapid.IntRange(1, 4).Draw(t, "round")
			if !used[r] {
				used[r] = true
				c.Rounds = append(c.Rounds, r)
				c.P2P = append(c.P2P, rapid.Bool().Draw(t, "p2p"))
			}
		}
		nh := c.N - len(c.Byz)
		for range c.Byz {
			c.Mute = append(c.Mute, rapid.IntRange(0, (1<<nh)-1).Draw(t, "mute"))
		}
		if byzantine {
			if rapid.IntRange(0, 2).Draw(t, "template") == 0 {
				// equivocation template: different payloads of one round to two honest parties, then acks referring to them
				r := c.Rounds[rapid.IntRange(0, len(c.Rounds)-1).Draw(t, "tr")]
				src := rapid.IntRange(0, len(c.Byz)-1).Draw(t, "tsrc")
				c.Moves = append(c.Moves,
					sMove{Kind: 0, Src: src, To: rapid.IntRange(0, nh-1).Draw(t, "tv1"), Round: r, Body: 0},
					sMove{Kind: 0, Src: src, To: rapid.IntRange(0, nh-1).Draw(t, "tv2"), Round: r, Body: 1})
				for i := rapid.IntRange(0, 4).Draw(t, "tacks"); i > 0; i-- {
					c.Moves = append(c.Moves, sMove{Kind: 1, Src: rapid.SampledFrom([]int{0, 0, 1, 100, 101}).Draw(t, "tasrc"), To: rapid.IntRange(0, nh-1).Draw(t, "tato"), Round: r, About: 5, Ref: rapid.IntRange(0, 1).Draw(t, "taref")})
				}
			}
			if rapid.IntRange(0, 3).Draw(t, "twins") == 0 {
				// two payloads whose sha256 digests share 4 bytes, to two honest parties in opposite orders, in a round the script does not use
				src := rapid.IntRange(0, len(c.Byz)-1).Draw(t, "twsrc")
				v1 := rapid.IntRange(0, nh-1).Draw(t, "twv1")
				v2 := rapid.IntRange(0, nh-1).Draw(t, "twv2")
				c.Moves = append(c.Moves,
					sMove{Kind: 0, Src: src, To: v1, Round: 9, Body: 2}, sMove{Kind: 0, Src: src, To: v1, Round: 9, Body: 3},
					sMove{Kind: 0, Src: src, To: v2, Round: 9, Body: 3}, sMove{Kind: 0, Src: src, To: v2, Round: 9, Body: 2})
			}
			nm := rapid.IntRange(1, 12).Draw(t, "nmoves")
			for i := 0; i < nm; i++ {
				c.Moves = append(c.Moves, sMove{
					Kind:   rapid.SampledFrom([]int{0, 0, 0, 1, 1, 1, 1, 2, 2, 3}).Draw(t, "kind"),
					Src:    rapid.SampledFrom([]int{0, 0, 0, 1, 100, 100, 101}).Draw(t, "src"),
					To:     rapid.IntRange(0, nh-1).Draw(t, "to"),
					Round:  c.Rounds[rapid.IntRange(0, len(c.Rounds)-1).Draw(t, "mr")],
					Body:   rapid.IntRange(0, 3).Draw(t, "body"),
					About:  rapid.SampledFrom([]int{5, 5, 5, 5, 5, 0, 1, 2, 3, 4}).Draw(t, "about"),
					AboutI: rapid.IntRange(0, 4).Draw(t, "aboutI"),
					Digest: rapid.SampledFrom([]int{0, 0, 0, 0, 0, 0, 1, 2, 3, 4, 5}).Draw(t, "digest"),
					Ref:    rapid.IntRange(0, 30).Draw(t, "ref"),
					Replay: rapid.IntRange(0, 500).Draw(t, "replay"),
				})
			}
		}
		if !byzantine && rapid.IntRange(0, 3).Draw(t, "slowInit") == 0 {
			c.SlowInit = rapid.IntRange(1, c.N).Draw(t, "slowWho")
			c.SlowMs = rapid.SampledFrom([]int{150, 300, 700, 1500, 3000}).Draw(t, "slowMs")
		}
		c.Sched = genSchedule(t, 250)
		return c
	}
}

// birthdayTwin finds, for a broadcast payload, another payload of the same
// round whose sha256 digest shares the first 4 bytes (a ~2^16 search that an
// attacker can do; catches conflict checks that compare only a prefix).
var twinCache = map[string][]byte{}

func birthdayTwin(round uint8, sender uint16) (a, b []byte) {
	key := fmt.Sprintf("%d/%d", round, sender)
	if t, ok := twinCache[key]; ok {
		return t[:len(t)/2], t[len(t)/2:]
	}
	seen := map[[4]byte][]byte{}
	for i := 0; ; i++ {
		p := backends.RecPayload(true, round, sender, 0, fmt.Sprintf("twin%08d", i))
		d := sha256.Sum256(p)
		var k [4]byte
		copy(k[:], d[:4])
		if q, ok := seen[k]; ok {
			twinCache[key] = append(append([]byte(nil), q...), p...)
			return q, p
		}
		seen[k] = p
	}
}

type sHandoff struct {
	Node    uint16
	From    uint16
	Bcast   bool // class of the payload
	Flag    bool // broadcast flag the orchestrator passed to OnMsg
	Payload []byte
	Seq     int
}

type sInfo struct {
	Handoffs      int
	Equivocations int
	ForgedAcks    int
	Replays       int
	OutsiderMoves int
	AckBeforeMsg  int
	Results       map[int]string
}

func runSCase(prop string) func(c sCase) *vh.Outcome {
	return func(c sCase) *vh.Outcome {
		o := &vh.Outcome{}
		info := &sInfo{Results: map[int]string{}}
		o.Info = info
		parts := u16s(seq(1, c.N))
		isByz := map[uint16]bool{}
		var byz, honest []uint16
		for _, b := range c.Byz {
			isByz[uint16(b)] = true
		}
		for _, p := range parts {
			if isByz[p] {
				byz = append(byz, p)
			} else {
				honest = append(honest, p)
			}
		}
		outsider := uint16(c.N + 1)
		unknown := uint16(200)
		membership := identityMembership(c.N + c.Outsiders)
		tape := &backends.Tape{}
		var fail *vh.Failure
		var log []*sim.Frame
		deliveredAt := map[int]int{} // frame seq -> tape seq at delivery
		var script []backends.Phase
		for i, r := range c.Rounds {
			script = append(script, backends.Phase{Round: uint8(r), Bcasts: 1, P2P: c.P2P[i]})
		}
		sess := "dkg"
		if c.Op == "sign" {
			sess = "sign"
		}

		br := sim.Bubble(theT, func() {
			net := sim.NewNet()
			hold := make(chan struct{})
			mk := func(node uint16, session string) *backends.Rec {
				r := &backends.Rec{Node: node, Tape: tape, Script: script, Session: session}
				if c.SlowInit > 0 && int(node) == c.SlowInit && session == sess {
					r.Hook = func(point string) {
						if point == "init" {
							time.Sleep(time.Duration(c.SlowMs) * time.Millisecond)
						}
					}
				}
				if session == sess {
					r.Hold = hold
				} else {
					r.Script = backends.DefaultScript()
				}
				return r
			}
			cl := stack.New(net, stack.Config{Membership: membership, Silent: c.Silent, Threshold: c.N - 1,
				KGF: func(node uint16) tss.KeyGenFactory {
					return func(id uint16) tss.KeyGenerator { r := mk(node, "dkg"); r.Party = id; return r }
				},
				SF: func(node uint16) tss.SignerFactory {
					return func(id uint16) tss.Signer { r := mk(node, "sign"); r.Party = id; return r }
				},
				Pick: func(uint16) func([]byte, int) []uint16 {
					return func([]byte, int) []uint16 { return append([]uint16(nil), parts...) }
				}})
			defer cl.StopAll()
			root, cancelRoot := context.WithCancel(context.Background())
			defer cancelRoot()
			if c.Op == "sign" {
				for _, id := range parts {
					cl.Nodes[id].Party.SetStoredData([]byte(fmt.Sprintf("rec:%d", id)))
				}
			}
			// mute masks: drop a Byzantine puppet's own MPC frames towards selected honest victims
			net.Interpose = func(f *sim.Frame) []*sim.Frame {
				if f.MsgType == 2 && isByz[f.From] && !isByz[f.To] {
					for bi, b := range byz {
						if b == f.From {
							for hi, h := range honest {
								if h == f.To && bi < len(c.Mute) && c.Mute[bi]&(1<<uint(hi)) != 0 {
									return nil
								}
							}
						}
					}
				}
				return []*sim.Frame{f}
			}
			ctx, cancel := context.WithTimeout(root, 8*time.Second)
			defer cancel()
			d := &sim.Driver{Net: net, Sched: &c.Sched, HardStop: 12 * time.Second}
			for _, id := range parts {
				if c.Op == "sign" {
					d.Calls = append(d.Calls, cl.SignCall(ctx, id, []byte("0123456789abcdef0123456789abcdef"), "levelS"))
				} else {
					d.Calls = append(d.Calls, cl.KeyGenCall(ctx, id, c.N, 2))
				}
			}
			d.BeforeDeliver = func(f *sim.Frame) bool {
				deliveredAt[f.Seq] = len(tape.Snapshot())
				return true
			}
			// the topic of the session's MPC traffic, learnt from library-produced frames
			var mpcTopic []byte
			net.OnSend = func(f *sim.Frame) {
				if f.MsgType == 2 && mpcTopic == nil && !f.Injected {
					mpcTopic = append([]byte(nil), f.Topic...)
				}
			}
			type inPlayT struct {
				sender uint16
				p      []byte
			}
			var inPlay []inPlayT
			byzBodies := map[string]map[string]bool{}
			mi := 0
			d.Extra = func() []sim.Action {
				if mi >= len(c.Moves) || mpcTopic == nil {
					return nil
				}
				return []sim.Action{{Name: "adv", Slot: 555 + mi, Do: func() {
					m := c.Moves[mi]
					mi++
					var src uint16
					switch {
					case m.Src == 100:
						if c.Outsiders == 0 {
							src = unknown
						} else {
							src = outsider
						}
						info.OutsiderMoves++
					case m.Src == 101:
						src = unknown
						info.OutsiderMoves++
					default:
						src = byz[m.Src%len(byz)]
					}
					to := honest[m.To%len(honest)]
					inject := func(data []byte) {
						net.Inject(&sim.Frame{From: src, To: to, MsgType: 2, Topic: append([]byte(nil), mpcTopic...), Data: data})
					}
					// library-produced payloads in play (from the log) so that acks can refer to honest senders too
					for _, f := range net.LogCopy() {
						if f.MsgType == 2 && !f.Injected && len(f.Data) > 2 && f.Data[0] == 0xFF && f.Data[1] == 1 {
							dup := false
							for _, ip := range inPlay {
								if bytes.Equal(ip.p, f.Data[1:]) {
									dup = true
								}
							}
							if !dup {
								inPlay = append(inPlay, inPlayT{f.From, append([]byte(nil), f.Data[1:]...)})
							}
						}
					}
					switch m.Kind {
					case 0, 3:
						p := backends.RecPayload(m.Kind == 0, uint8(m.Round), src, 0, fmt.Sprintf("adv%d", m.Body))
						if m.Kind == 0 && m.Body >= 2 { // a pair of payloads whose digests share their first 4 bytes
							ta, tb := birthdayTwin(uint8(m.Round), src)
							p = ta
							if m.Body == 3 {
								p = tb
							}
						}
						if m.Kind == 0 {
							key := fmt.Sprintf("%d/%d", src, m.Round)
							if byzBodies[key] == nil {
								byzBodies[key] = map[string]bool{}
							}
							byzBodies[key][string(p)] = true
							if len(byzBodies[key]) > 1 || isByz[src] {
								info.Equivocations++ // differs from the puppet's own payload of that round or from another injected one
							}
							inPlay = append(inPlay, inPlayT{src, p})
						}
						inject(append([]byte{0xFF}, p...))
					case 1:
						about := src
						round := uint8(m.Round)
						refDigest := sha256.Sum256(backends.RecPayload(true, round, src, 0, fmt.Sprintf("adv%d", m.Body)))
						dg := refDigest[:]
						var ref *inPlayT
						if len(inPlay) > 0 {
							ref = &inPlay[m.Ref%len(inPlay)]
							x := sha256.Sum256(ref.p)
							dg = x[:]
						}
						switch m.About {
						case 1:
							about = byz[m.AboutI%len(byz)]
						case 2:
							about = honest[m.AboutI%len(honest)]
						case 3:
							about = to
						case 4:
							about = outsider
						case 5:
							if ref != nil {
								about = ref.sender
								if len(ref.p) > 1 {
									round = ref.p[1]
								}
							}
						}
						switch m.Digest {
						case 1:
							x := sha256.Sum256([]byte(fmt.Sprintf("never-sent-%d", m.Replay)))
							dg = x[:]
						case 2:
							dg = make([]byte, 32)
							for i := range dg {
								dg[i] = byte(m.Replay + i*7)
							}
						case 3:
							dg = dg[:1+m.Replay%7]
						case 4:
							dg = append(append([]byte(nil), dg...), byte(m.Replay))
						case 5:
							// the twin pair is sent as payloads by a later/earlier payload move; here its digest is vouched for
							_, b := birthdayTwin(round, about)
							x := sha256.Sum256(b)
							dg = x[:]
						}
						info.ForgedAcks++
						inject(append([]byte{round, byte(about >> 8), byte(about)}, dg...))
					case 2:
						var cands []*sim.Frame
						for _, f := range net.LogCopy() {
							if f.MsgType == 2 {
								cands = append(cands, f)
							}
						}
						if len(cands) > 0 {
							info.Replays++
							inject(append([]byte(nil), cands[m.Replay%len(cands)].Data...))
						}
					}
				}}}
			}
			// run until the adversary is done, the queues are empty and the honest backends finished their scripts (or time is up)
			d.Until = func() bool {
				if mi < len(c.Moves) && mpcTopic != nil {
					return false
				}
				if len(net.Pending()) > 0 {
					return false
				}
				if d.Now() > 6*time.Second {
					return true
				}
				reached := 0
				for _, e := range tape.Snapshot() {
					if e.Kind == "script-done" && e.Session == sess {
						reached++
					}
				}
				return reached >= len(parts) || allDone(d.Calls)
			}
			d.Run()
			close(hold)
			d.Until = nil
			d.Extra = nil
			d.DrainAfterDone = true
			d.Run()
			if f := driverFailure(prop, d); f != nil {
				fail = f
				return
			}
			for i, call := range d.Calls {
				id := int(parts[i])
				switch {
				case call.Panic != "":
					fail = vh.Failf(prop+"/panic/level-S", "%s on node %d panicked: %s", c.Op, id, call.Panic)
					return
				case !call.IsDone():
					info.Results[id] = "not returned"
				case call.Err != nil:
					info.Results[id] = "error: " + call.Err.Error()
				default:
					info.Results[id] = "ok"
				}
			}
			log = net.LogCopy()
			cancelRoot()
			cl.StopAll()
			time.Sleep(time.Minute)
		})
		if br.Panic != "" {
			o.Fail = vh.Failf(prop+"/harness-panic", "%s", br.Panic)
			return o
		}
		o.Key = fmt.Sprintf("%+v", c)
		o.Classes = append(o.Classes, fmt.Sprintf("n=%d", c.N), "op="+c.Op, fmt.Sprintf("silent=%v", c.Silent), fmt.Sprintf("outsiders=%d", c.Outsiders))
		if fail != nil {
			o.Fail = fail
			return o
		}
		// hand-offs to honest backends of this session
		isHonest := map[uint16]bool{}
		for _, h := range honest {
			isHonest[h] = true
		}
		var hs []sHandoff
		for _, e := range tape.Snapshot() {
			if e.Kind == "onmsg" && e.Session == sess && isHonest[e.Node] {
				// the class of a hand-off is the class of the payload (what the receiver-side classifier says), not the flag
				// the orchestrator passes along: a broadcast-class payload that bypassed the broadcast layer still counts
				hs = append(hs, sHandoff{Node: e.Node, From: e.From, Bcast: len(e.Payload) > 0 && e.Payload[0] == 1, Flag: e.Bcast, Payload: e.Payload, Seq: e.Seq})
			}
		}
		info.Handoffs = len(hs)
		if len(c.Byz) > 0 {
			o.NonTrivial = (info.Equivocations > 0 || info.ForgedAcks > 0 || info.Replays > 0) && len(hs) > 0
			if info.Equivocations > 0 {
				o.Classes = append(o.Classes, "equivocation")
			}
			if info.ForgedAcks > 0 {
				o.Classes = append(o.Classes, "forged-ack")
			}
			if info.Replays > 0 {
				o.Classes = append(o.Classes, "replay")
			}
			if info.OutsiderMoves > 0 {
				o.Classes = append(o.Classes, "outsider-traffic")
			}
		}
		if len(hs) > 0 {
			o.Classes = append(o.Classes, "some-handoff")
		}
		switch prop {
		case "C02":
			o.Fail = sOracleC02(hs, c)
		case "C03":
			o.Fail = sOracleC03(hs, c, log, deliveredAt, parts)
		case "C04":
			// acks overtaking their payload (statistic)
			first := map[string]int{}
			for _, f := range log {
				if f.MsgType != 2 || len(f.Data) == 0 {
					continue
				}
				at, ok := deliveredAt[f.Seq]
				if !ok {
					continue
				}
				if f.Data[0] == 0xFF {
					d := sha256.Sum256(f.Data[1:])
					k := fmt.Sprintf("%d/%x", f.To, d[:])
					if _, seen := first[k]; !seen {
						first[k] = at
					}
				}
			}
			for _, f := range log {
				if f.MsgType == 2 && len(f.Data) > 3 && f.Data[0]&0x80 == 0 {
					if at, ok := deliveredAt[f.Seq]; ok {
						k := fmt.Sprintf("%d/%x", f.To, f.Data[3:])
						if p, seen := first[k]; !seen || p > at {
							info.AckBeforeMsg++
						}
					}
				}
			}
			o.NonTrivial = info.AckBeforeMsg > 0 && c.N >= 3
			if info.AckBeforeMsg > 0 {
				o.Classes = append(o.Classes, "ack-before-payload")
			}
			o.Fail = sOracleC04(hs, c, log, info)
		}
		return o
	}
}

func recRoundSender(p []byte) (round uint8, sender uint16, ok bool) {
	if len(p) < 4 {
		return 0, 0, false
	}
	return p[1], uint16(p[2])<<8 | uint16(p[3]), true
}

func sOracleC02(hs []sHandoff, c sCase) *vh.Failure {
	seen := map[string]map[string]uint16{}
	for _, h := range hs {
		if !h.Bcast {
			continue
		}
		round := uint8(0)
		if len(h.Payload) > 1 {
			round = h.Payload[1]
		}
		k := fmt.Sprintf("%d/%d", h.From, round)
		if seen[k] == nil {
			seen[k] = map[string]uint16{}
		}
		seen[k][string(h.Payload)] = h.Node
		if len(seen[k]) > 1 {
			var l []string
			for p, n := range seen[k] {
				l = append(l, fmt.Sprintf("%q@node%d", p, n))
			}
			sort.Strings(l)
			return vh.Failf("C02/agreement/level-S", "honest backends were handed different broadcast payloads attributed to sender %d round %d: %v (N=%d byz=%v op=%s)", h.From, round, l, c.N, c.Byz, c.Op)
		}
	}
	return nil
}

func sOracleC03(hs []sHandoff, c sCase, log []*sim.Frame, deliveredAt map[int]int, parts []uint16) *vh.Failure {
	count := map[string]int{}
	p2pIdx := map[string]int{}
	for _, h := range hs {
		if int(h.From) < 1 || int(h.From) > c.N {
			return vh.Failf("C03/non-participant/level-S", "backend of node %d was handed a message attributed to %d which is not a session participant (participants 1..%d, op=%s)", h.Node, h.From, c.N, c.Op)
		}
		if len(h.Payload) == 0 {
			return vh.Failf("C03/empty-handoff/level-S", "backend of node %d was handed an empty message attributed to %d", h.Node, h.From)
		}
		if h.Flag != h.Bcast {
			return vh.Failf("C03/class-flag-mismatch/level-S", "backend of node %d was handed payload %q attributed to %d with broadcast=%v although the receiver-side classification of that payload is broadcast=%v (it did not go through the layer that its class requires)", h.Node, h.Payload, h.From, h.Flag, h.Bcast)
		}
		wire := append([]byte{0xFF}, h.Payload...)
		if h.Bcast {
			round := uint8(0)
			if len(h.Payload) > 1 {
				round = h.Payload[1]
			}
			k := fmt.Sprintf("%d/%d/%d", h.Node, h.From, round)
			count[k]++
			if count[k] > 1 {
				return vh.Failf("C03/duplicate-handoff/level-S", "backend of node %d was handed the broadcast of sender %d round %d %d times (N=%d byz=%v op=%s)", h.Node, h.From, round, count[k], c.N, c.Byz, c.Op)
			}
			ok := false
			for _, f := range log {
				if f.From == h.From && f.To == h.Node && f.MsgType == 2 && bytes.Equal(f.Data, wire) {
					if at, d := deliveredAt[f.Seq]; d && at <= h.Seq {
						ok = true
					}
				}
			}
			if !ok {
				return vh.Failf("C03/not-directly-received/level-S", "backend of node %d was handed broadcast %q attributed to %d, but node %d never transmitted exactly that payload to it directly before the hand-off", h.Node, h.Payload, h.From, h.From)
			}
		} else {
			// point-to-point: equals the next delivered p2p frame of link (from -> node)
			link := fmt.Sprintf("%d>%d", h.From, h.Node)
			var frames []*sim.Frame
			for _, f := range log {
				if f.From == h.From && f.To == h.Node && f.MsgType == 2 && len(f.Data) > 1 && f.Data[0] == 0xFF && f.Data[1] == 2 {
					if _, d := deliveredAt[f.Seq]; d {
						frames = append(frames, f)
					}
				}
			}
			sort.Slice(frames, func(i, j int) bool { return deliveredAt[frames[i].Seq] < deliveredAt[frames[j].Seq] })
			i := p2pIdx[link]
			if i >= len(frames) || !bytes.Equal(frames[i].Data, wire) {
				return vh.Failf("C03/p2p-mismatch/level-S", "point-to-point hand-off #%d to node %d attributed to %d does not equal the frame received from it", i, h.Node, h.From)
			}
			p2pIdx[link] = i + 1
		}
	}
	return nil
}

func sOracleC04(hs []sHandoff, c sCase, log []*sim.Frame, info *sInfo) *vh.Failure {
	for id, r := range info.Results {
		if r != "ok" {
			return vh.Failf("C04/session-failed/level-S", "all participants are honest and every frame was delivered, but %s on node %d ended with: %s", c.Op, id, r)
		}
	}
	got := map[string]int{}
	for _, h := range hs {
		got[fmt.Sprintf("node%d<-%d bcast=%v %q", h.Node, h.From, h.Bcast, h.Payload)]++
	}
	want := map[string]int{}
	seenB := map[string]bool{}
	for _, f := range log {
		if f.MsgType != 2 || len(f.Data) < 2 || f.Data[0] != 0xFF || int(f.To) > c.N {
			continue
		}
		bc := f.Data[1] == 1
		k := fmt.Sprintf("node%d<-%d bcast=%v %q", f.To, f.From, bc, f.Data[1:])
		if bc {
			if seenB[k] {
				continue
			}
			seenB[k] = true
		}
		want[k]++
	}
	for k, n := range want {
		if got[k] != n {
			return vh.Failf("C04/totality/level-S", "%s: handed %d times, expected %d (all honest, everything delivered, N=%d op=%s silent=%v)", k, got[k], n, c.N, c.Op, c.Silent)
		}
	}
	for k, n := range got {
		if want[k] != n {
			return vh.Failf("C04/spurious/level-S", "%s: handed %d times but transmitted %d times", k, n, want[k])
		}
	}
	return nil
}

func TestC02S(t *testing.T) {
	theT = t
	vh.Prop[sCase]{ID: "C02", Test: "TestC02S", Gen: genSCase(true), Run: runSCase("C02")}.Main(t)
}

func TestC03S(t *testing.T) {
	theT = t
	vh.Prop[sCase]{ID: "C03", Test: "TestC03S", Gen: genSCase(true), Run: runSCase("C03")}.Main(t)
}

func TestC04S(t *testing.T) {
	theT = t
	vh.Prop[sCase]{ID: "C04", Test: "TestC04S", Gen: genSCase(false), Run: runSCase("C04")}.Main(t)
}
