// Package fix produces valid cryptographic fixtures (keys, signatures,
// requests, proofs) by running the library's own DKG and signing code. They
// are the bases that the metamorphic (C09), hostile-input (C10) and
// completeness (C08/C18) checks perturb.
package fix

import (
	"context"
	"fmt"
	"testing"

	"github.com/IBM/TSS/mpc/bls"
	"github.com/IBM/TSS/mpc/ps"
	math "github.com/IBM/mathlib"

	"verif/core/kit"
	"verif/core/sim"
)

var Curve = math.Curves[1]

// BLS fixture -----------------------------------------------------------------

type BLS struct {
	N, T    int
	Parties []uint16
	Shares  [][]byte // KeyGen output per party
	PP      []byte   // public parameters (ThresholdPK())
}

// NewBLS runs a fault-free backend-level DKG (inside its own bubble).
func NewBLS(t *testing.T, parties []uint16, thr int, sched *sim.Schedule) (*BLS, error) {
	f := &BLS{N: len(parties), T: thr, Parties: parties}
	var err error
	sim.Bubble(t, func() {
		shares, _, d := kit.RunHonest(kit.Kind{Name: "bls"}, parties, thr, sched)
		if shares == nil {
			err = fmt.Errorf("bls DKG failed: %s", describe(d))
			return
		}
		f.Shares = shares
	})
	if err != nil {
		return nil, err
	}
	tb, err := f.Signer(0)
	if err != nil {
		return nil, err
	}
	f.PP, err = tb.ThresholdPK()
	return f, err
}

func describe(d *sim.Driver) string {
	s := ""
	for _, c := range d.Calls {
		s += fmt.Sprintf("[done=%v err=%v panic=%q]", c.IsDone(), c.Err, c.Panic)
	}
	return s
}

// Signer returns a TBLS loaded with the share of Parties[i].
func (f *BLS) Signer(i int) (*bls.TBLS, error) {
	tb := &bls.TBLS{Logger: &sim.Logger{}, Party: f.Parties[i]}
	tb.Init(f.Parties, f.T, nil)
	if err := tb.SetShareData(f.Shares[i]); err != nil {
		return nil, err
	}
	return tb, nil
}

func (f *BLS) Partial(i int, digest []byte) []byte {
	tb, err := f.Signer(i)
	if err != nil {
		panic(err)
	}
	s, _ := tb.Sign(context.Background(), digest)
	return s
}

func (f *BLS) Verifier() *bls.Verifier {
	v := &bls.Verifier{}
	if err := v.Init(f.PP); err != nil {
		panic(err)
	}
	return v
}

// PS fixture --------------------------------------------------------------------

type PS struct {
	N, T, L int
	Parties []uint16
	Shares  [][]byte
	TPK     []byte // TPS.ThresholdPK() bytes
}

func NewPS(t *testing.T, parties []uint16, thr, l int, sched *sim.Schedule) (*PS, error) {
	f := &PS{N: len(parties), T: thr, L: l, Parties: parties}
	var err error
	sim.Bubble(t, func() {
		shares, _, d := kit.RunHonest(kit.Kind{Name: "ps", L: l}, parties, thr, sched)
		if shares == nil {
			err = fmt.Errorf("ps DKG failed: %s", describe(d))
			return
		}
		f.Shares = shares
	})
	if err != nil {
		return nil, err
	}
	s, err := f.Signer(0)
	if err != nil {
		return nil, err
	}
	f.TPK, err = s.ThresholdPK()
	return f, err
}

func (f *PS) Signer(i int) (*ps.TPS, error) {
	tp := &ps.TPS{Curve: Curve, Party: f.Parties[i], Logger: &sim.Logger{}, MessageLength: f.L}
	tp.Init(f.Parties, f.T, nil)
	if err := tp.SetShareData(f.Shares[i]); err != nil {
		return nil, err
	}
	return tp, nil
}

func (f *PS) Prover() (*ps.Prover, error) {
	p := &ps.Prover{Logger: &sim.Logger{}}
	if err := p.Init(Curve, f.L, f.TPK, f.Parties); err != nil {
		return nil, err
	}
	return p, nil
}

func (f *PS) Verifier() (*ps.Verifier, error) {
	v := &ps.Verifier{}
	if err := v.Init(Curve, f.L, f.TPK); err != nil {
		return nil, err
	}
	return v, nil
}

// Chain is one complete blind-sign-unblind run.
type Chain struct {
	Request   []byte
	Secret    *ps.UnblindingSecret
	Partials  [][]byte // per party
	Witnesses []ps.SignatureWitness
}

// NewChain blinds msgs, has every party sign and unblinds every partial.
func (f *PS) NewChain(msgs [][]byte) (*Chain, error) {
	pr, err := f.Prover()
	if err != nil {
		return nil, err
	}
	req, secret := pr.Blind(msgs)
	c := &Chain{Request: req.Bytes(), Secret: &secret}
	for i := range f.Parties {
		s, err := f.Signer(i)
		if err != nil {
			return nil, err
		}
		sig, err := s.Sign(context.Background(), c.Request)
		if err != nil {
			return nil, fmt.Errorf("party %d cannot sign a valid request: %w", f.Parties[i], err)
		}
		c.Partials = append(c.Partials, sig)
		w, err := pr.UnBlind(f.Parties[i], sig, c.Secret)
		if err != nil {
			return nil, fmt.Errorf("partial signature of party %d does not unblind: %w", f.Parties[i], err)
		}
		c.Witnesses = append(c.Witnesses, w)
	}
	return c, nil
}

// Proof builds the proof of knowledge from the witnesses of the parties at the given indices.
func (f *PS) Proof(c *Chain, idx []int) ([]byte, error) {
	pr, err := f.Prover()
	if err != nil {
		return nil, err
	}
	var signers []uint16
	var ws []ps.SignatureWitness
	for _, i := range idx {
		signers = append(signers, f.Parties[i])
		ws = append(ws, c.Witnesses[i])
	}
	pok := pr.ProveKnowledgeOfSignature(c.Secret, signers, ws)
	return pok.Bytes(), nil
}
