module verif/core

go 1.26.8

require (
	github.com/IBM/TSS v0.0.0
	github.com/IBM/TSS/mpc/bls v0.0.0
	github.com/IBM/TSS/mpc/ps v0.0.0
	github.com/IBM/mathlib v0.0.3-0.20230831091907-c532c4d3b65c
	github.com/consensys/gnark-crypto v0.9.1
	pgregory.net/rapid v1.3.0
	verif/vh v0.0.0
)

require (
	github.com/consensys/bavard v0.1.13 // indirect
	github.com/hyperledger/fabric-amcl v0.0.0-20230602173724-9e02669dceb2 // indirect
	github.com/kilic/bls12-381 v0.1.0 // indirect
	github.com/mmcloughlin/addchain v0.4.0 // indirect
	github.com/pkg/errors v0.9.1 // indirect
	golang.org/x/crypto v0.1.0 // indirect
	golang.org/x/sys v0.5.0 // indirect
	rsc.io/tmplfunc v0.0.3 // indirect
)

replace (
	github.com/IBM/TSS => /repo
	github.com/IBM/TSS/mpc/bls => /repo/mpc/bls
	github.com/IBM/TSS/mpc/ps => /repo/mpc/ps
	verif/vh => ../vh
)
