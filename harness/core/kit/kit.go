// Package kit drives MPC backends (bls.TBLS, ps.TPS, ...) directly through
// Init/OnMsg/KeyGen over the simulated network with an *ideal* broadcast
// ("Level B" in DESIGN.md): a broadcast reaches every other party with one
// value. It is used to isolate the backends' own checks, to produce fixtures
// and as the Byzantine playground of C05/C18.
package kit

import (
	"context"
	"time"

	"github.com/IBM/TSS/mpc/bls"
	"github.com/IBM/TSS/mpc/ps"
	tss "github.com/IBM/TSS/types"
	math "github.com/IBM/mathlib"

	"verif/core/sim"
)

type Kind struct {
	Name string // "bls" | "ps"
	L    int    // ps message length
}

func (k Kind) NewKeyGen(party uint16) tss.KeyGenerator {
	if k.Name == "ps" {
		return &ps.TPS{Curve: math.Curves[1], Party: party, Logger: &sim.Logger{}, MessageLength: k.L}
	}
	return &bls.TBLS{Party: party, Logger: &sim.Logger{}}
}

// adaptor makes a backend a sim.Handler. Frame.Data = flag(1 = broadcast) | payload.
type adaptor struct {
	b      tss.KeyGenerator
	onRecv func(from uint16, payload []byte, bcast bool)
}

func (a *adaptor) HandleMessage(m *tss.IncMessage) {
	if len(m.Data) < 1 {
		return
	}
	if a.onRecv != nil {
		a.onRecv(m.Source, m.Data[1:], m.Data[0] == 1)
	}
	a.b.OnMsg(m.Data[1:], m.Source, m.Data[0] == 1)
}

type Kit struct {
	Net      *sim.Net
	Parties  []uint16
	T        int
	Backends map[uint16]tss.KeyGenerator
	// Byz parties have no backend attached by New; their outgoing traffic is
	// whatever the test injects. Frames addressed to them are dropped.
	Byz map[uint16]bool
	// OnRecv observes deliveries into honest backends.
	OnRecv func(to, from uint16, payload []byte, bcast bool)
	// OnEmit observes what honest backends emit (before it is queued).
	OnEmit func(from uint16, payload []byte, bcast bool, to uint16)
}

type sink struct{}

func (sink) HandleMessage(*tss.IncMessage) {}

// New creates and initialises backends for all honest parties.
func New(kind Kind, parties []uint16, t int, byz map[uint16]bool) *Kit {
	k := &Kit{Net: sim.NewNet(), Parties: parties, T: t, Backends: map[uint16]tss.KeyGenerator{}, Byz: byz}
	for _, p := range parties {
		p := p
		if byz[p] {
			k.Net.Attach(p, sink{})
			continue
		}
		b := kind.NewKeyGen(p)
		k.Backends[p] = b
		k.Net.Attach(p, &adaptor{b: b, onRecv: func(from uint16, payload []byte, bc bool) {
			if k.OnRecv != nil {
				k.OnRecv(p, from, payload, bc)
			}
		}})
		b.Init(append([]uint16(nil), parties...), t, func(msg []byte, isBroadcast bool, to uint16) {
			if k.OnEmit != nil {
				k.OnEmit(p, msg, isBroadcast, to)
			}
			k.Emit(p, msg, isBroadcast, to)
		})
	}
	return k
}

// Emit queues a protocol message from party p (honest path, also usable by an
// adversary for well-formed sends).
func (k *Kit) Emit(p uint16, msg []byte, isBroadcast bool, to uint16) {
	if isBroadcast {
		for _, q := range k.Parties {
			if q != p {
				k.Net.Enqueue(&sim.Frame{From: p, To: q, MsgType: 2, Data: append([]byte{1}, msg...)})
			}
		}
		return
	}
	k.Net.Enqueue(&sim.Frame{From: p, To: to, MsgType: 2, Data: append([]byte{0}, msg...)})
}

// KeyGenCalls returns one call per honest party.
func (k *Kit) KeyGenCalls(ctx context.Context) []*sim.Call {
	var cs []*sim.Call
	for _, p := range k.Parties {
		if k.Byz[p] {
			continue
		}
		b := k.Backends[p]
		cs = append(cs, &sim.Call{Name: "keygen", Start: func(c *sim.Call) {
			d, err := b.KeyGen(ctx)
			c.Finish(d, err)
		}})
	}
	return cs
}

// RunHonest runs a complete fault-free DKG inside the current bubble and
// returns the shares in party order.
func RunHonest(kind Kind, parties []uint16, t int, sched *sim.Schedule) ([][]byte, *Kit, *sim.Driver) {
	k := New(kind, parties, t, nil)
	ctx, cancel := context.WithTimeout(context.Background(), time.Hour)
	defer cancel()
	if sched == nil {
		sched = &sim.Schedule{}
	}
	d := &sim.Driver{Net: k.Net, Sched: sched, DrainAfterDone: true, Calls: k.KeyGenCalls(ctx)}
	d.Run()
	var shares [][]byte
	for _, c := range d.Calls {
		if !c.IsDone() || c.Err != nil || c.Panic != "" {
			return nil, k, d
		}
		shares = append(shares, c.Data)
	}
	return shares, k, d
}
