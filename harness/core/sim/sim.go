// Package sim is the simulated network, the schedule-driven dispatcher and the
// virtual-time bubble shared by the full-stack checks (DESIGN.md §2.2-2.3).
//
// Real protocol instances (threshold.Scheme, disc.Member, ...) are wired to a
// Net whose per-link FIFO queues are drained by a scheduler that takes every
// decision from a pre-drawn choice vector, inside a testing/synctest bubble.
package sim

import (
	"bytes"
	"fmt"
	"runtime/debug"
	"sort"
	"strings"
	"sync"
	"testing"
	"testing/synctest"
	"time"

	tss "github.com/IBM/TSS/types"
)

// ---------------------------------------------------------------------------
// logger

// Logger satisfies every Logger interface of the repository. It keeps the
// last few warnings/errors for diagnostics; nothing is printed.
type Logger struct {
	mu    sync.Mutex
	Warns int
	Errs  int
	last  []string
	Keep  bool
	// OnDebug, when set, is called for every Debugf with the format string: the library's log statements are yield
	// points that need no instrumentation (a check may deliver a frame right there, in the middle of a library function).
	OnDebug func(format string)
}

func (l *Logger) DebugEnabled() bool { return false }
func (l *Logger) Debugf(f string, _ ...interface{}) {
	if l.OnDebug != nil {
		l.OnDebug(f)
	}
}
func (l *Logger) Infof(string, ...interface{})      {}
func (l *Logger) Warnf(f string, a ...interface{})  { l.note(&l.Warns, "W ", f, a) }
func (l *Logger) Errorf(f string, a ...interface{}) { l.note(&l.Errs, "E ", f, a) }
func (l *Logger) note(ctr *int, p, f string, a []interface{}) {
	l.mu.Lock()
	*ctr++
	if l.Keep && len(l.last) < 50 {
		l.last = append(l.last, p+fmt.Sprintf(f, a...))
	}
	l.mu.Unlock()
}
func (l *Logger) Last() []string {
	l.mu.Lock()
	defer l.mu.Unlock()
	return append([]string(nil), l.last...)
}

// ---------------------------------------------------------------------------
// network

type Frame struct {
	Seq     int    `json:"seq"`
	From    uint16 `json:"from"`
	To      uint16 `json:"to"`
	MsgType uint8  `json:"type"`
	Topic   []byte `json:"topic"`
	Data    []byte `json:"data"`
	// Injected frames did not come out of a library Send call.
	Injected bool `json:"injected,omitempty"`
	// Note is a harness-side label (e.g. which of two instances behind one identifier sent the frame); never on the wire.
	Note string `json:"note,omitempty"`
	// The library's own transport queues the slices it is given and writes them to the socket later; it does not
	// copy at Send time. The simulated transport does the same: Data/Topic are the snapshot taken at Send time (what
	// every oracle calls "sent"), liveData/liveTopic are the caller's slices, read when the frame is delivered. A
	// sender that reuses a buffer after Send therefore corrupts its own queued frames here exactly as it would there.
	liveData, liveTopic []byte
	snapData, snapTopic []byte // to notice frames that an interposer rewrote (those are delivered as rewritten)
}

func (f *Frame) Inc() *tss.IncMessage {
	data, topic := f.Data, f.Topic
	if f.liveData != nil && bytes.Equal(f.Data, f.snapData) {
		data = f.liveData
	}
	if f.liveTopic != nil && bytes.Equal(f.Topic, f.snapTopic) {
		topic = f.liveTopic
	}
	return &tss.IncMessage{Source: f.From, MsgType: f.MsgType, Topic: clone(topic), Data: clone(data)}
}

func clone(b []byte) []byte {
	if b == nil {
		return nil
	}
	return append([]byte{}, b...)
}

type Handler interface {
	HandleMessage(*tss.IncMessage)
}

type Link struct{ From, To uint16 }

type Net struct {
	mu       sync.Mutex
	seq      int
	queues   map[Link][]*Frame
	handlers map[uint16]Handler
	// Log has every frame handed to the network, in Send order.
	Log []*Frame
	// DeadLetters are frames addressed to a node that does not exist.
	DeadLetters []*Frame
	// Interpose, when set, sees every frame before it is queued and returns
	// the frames to queue instead (nil = drop). Used for Byzantine puppets
	// and for fault injection. Called with the lock held.
	Interpose func(f *Frame) []*Frame
	// OnSend observers (called with the lock held, after Interpose).
	OnSend func(f *Frame)
	// PreSend, when set, is called inside the library's Send call for every destination, before the frame is handed to
	// the network and WITHOUT any harness lock held: the place for faults that happen "inside Send" (cancel the
	// sender's context, yield the processor).
	PreSend func(from, to uint16, msgType uint8)
}

func NewNet() *Net {
	return &Net{queues: map[Link][]*Frame{}, handlers: map[uint16]Handler{}}
}

func (n *Net) Attach(id uint16, h Handler) { n.mu.Lock(); n.handlers[id] = h; n.mu.Unlock() }

// SendFunc returns the transport send function of node `from`.
func (n *Net) SendFunc(from uint16) func(msgType uint8, topic []byte, msg []byte, to ...uint16) {
	return func(msgType uint8, topic []byte, msg []byte, to ...uint16) {
		for _, dst := range to {
			if n.PreSend != nil {
				n.PreSend(from, dst, msgType)
			}
			n.Enqueue(&Frame{From: from, To: dst, MsgType: msgType, Topic: clone(topic), Data: clone(msg),
				liveData: msg, liveTopic: topic, snapData: clone(msg), snapTopic: clone(topic)})
		}
	}
}

// Enqueue hands a frame to the network (through the interposer).
func (n *Net) Enqueue(f *Frame) {
	n.mu.Lock()
	defer n.mu.Unlock()
	frames := []*Frame{f}
	if n.Interpose != nil && !f.Injected {
		frames = n.Interpose(f)
	}
	for _, g := range frames {
		n.enqueueLocked(g)
	}
}

// Inject queues a frame bypassing the interposer.
func (n *Net) Inject(f *Frame) {
	n.mu.Lock()
	defer n.mu.Unlock()
	f.Injected = true
	n.enqueueLocked(f)
}

func (n *Net) enqueueLocked(g *Frame) {
	g.Seq = n.seq
	n.seq++
	n.Log = append(n.Log, g)
	if _, ok := n.handlers[g.To]; !ok {
		n.DeadLetters = append(n.DeadLetters, g)
		return
	}
	l := Link{g.From, g.To}
	n.queues[l] = append(n.queues[l], g)
	if n.OnSend != nil {
		n.OnSend(g)
	}
}

// Pending lists the links with queued frames, sorted.
func (n *Net) Pending() []Link {
	n.mu.Lock()
	defer n.mu.Unlock()
	var ls []Link
	for l, q := range n.queues {
		if len(q) > 0 {
			ls = append(ls, l)
		}
	}
	sort.Slice(ls, func(i, j int) bool {
		if ls[i].From != ls[j].From {
			return ls[i].From < ls[j].From
		}
		return ls[i].To < ls[j].To
	})
	return ls
}

func (n *Net) QueueLen(l Link) int { n.mu.Lock(); defer n.mu.Unlock(); return len(n.queues[l]) }

func (n *Net) Pop(l Link) *Frame {
	n.mu.Lock()
	defer n.mu.Unlock()
	q := n.queues[l]
	if len(q) == 0 {
		return nil
	}
	f := q[0]
	n.queues[l] = q[1:]
	return f
}

// PushFront puts frames that were taken off their links back at the head of those links, in the given order.
func (n *Net) PushFront(frames []*Frame) {
	n.mu.Lock()
	defer n.mu.Unlock()
	byLink := map[Link][]*Frame{}
	var order []Link
	for _, f := range frames {
		l := Link{f.From, f.To}
		if _, ok := byLink[l]; !ok {
			order = append(order, l)
		}
		byLink[l] = append(byLink[l], f)
	}
	for _, l := range order {
		n.queues[l] = append(append([]*Frame(nil), byLink[l]...), n.queues[l]...)
	}
}

// Peek returns the head of a link without removing it.
func (n *Net) Peek(l Link) *Frame {
	n.mu.Lock()
	defer n.mu.Unlock()
	q := n.queues[l]
	if len(q) == 0 {
		return nil
	}
	return q[0]
}

func (n *Net) Handler(id uint16) Handler { n.mu.Lock(); defer n.mu.Unlock(); return n.handlers[id] }

func (n *Net) Sent() int { n.mu.Lock(); defer n.mu.Unlock(); return n.seq }

func (n *Net) LogCopy() []*Frame {
	n.mu.Lock()
	defer n.mu.Unlock()
	return append([]*Frame(nil), n.Log...)
}

// ---------------------------------------------------------------------------
// schedule

// Schedule is the generated part of an execution: every scheduling decision
// is Choices[i] mod (total weight of the enabled actions); link and start
// weights come from Bias through the weight table.
type Schedule struct {
	Choices []int `json:"choices"`
	Bias    []int `json:"bias"`
}

var weightTable = []int{1, 1, 1, 8, 0, 64}

func (s *Schedule) weight(slot int) int {
	if len(s.Bias) == 0 {
		return 1
	}
	b := s.Bias[slot%len(s.Bias)]
	if b < 0 {
		b = -b
	}
	return weightTable[b%len(weightTable)]
}

// Action is something the scheduler may do next.
type Action struct {
	Name   string
	Slot   int // index into the bias table
	Do     func()
	Forced bool // weight-independent filler (tick)
}

// Call is one API invocation (KeyGen, Sign, Synchronize...) made by the harness.
type Call struct {
	Name                  string
	Start                 func(c *Call) // runs in its own goroutine
	Started               bool
	Done                  bool
	Err                   error
	Data                  []byte
	Panic                 string
	StartedAt, ReturnedAt time.Duration
	mu                    sync.Mutex
}

func (c *Call) Finish(data []byte, err error) {
	c.mu.Lock()
	c.Data, c.Err, c.Done = data, err, true
	c.mu.Unlock()
}
func (c *Call) IsDone() bool { c.mu.Lock(); defer c.mu.Unlock(); return c.Done }

// Go launches c on a goroutine of its own without waiting for quiescence (for calls that are started from inside a
// callback of the code under test, where the driver cannot wait). The channel is closed when the call has returned.
func (c *Call) Go() <-chan struct{} {
	c.Started = true
	returned := make(chan struct{})
	go func() {
		defer close(returned)
		defer func() {
			if r := recover(); r != nil {
				c.mu.Lock()
				c.Panic = fmt.Sprintf("panic: %v\n%s", r, trimStack(debug.Stack()))
				c.Done = true
				c.mu.Unlock()
			}
		}()
		c.Start(c)
	}()
	return returned
}

// TraceEntry records one executed action (compact).
type TraceEntry struct {
	A   string `json:"a"`
	Seq int    `json:"seq,omitempty"`
}

// Driver runs the schedule.
type Driver struct {
	Net      *Net
	Sched    *Schedule
	Calls    []*Call
	Tick     time.Duration // virtual time per tick action
	MaxSteps int
	// Extra returns additional enabled actions (fault injection, adversary moves).
	Extra func() []Action
	// BeforeDeliver may veto/replace a delivery (return false to drop the frame silently).
	BeforeDeliver func(f *Frame) bool
	// AfterStep runs after every action once the system is quiescent.
	AfterStep func()
	// Until, when set, ends the run as soon as it returns true (checked at quiescence).
	Until func() bool
	// DrainAfterDone keeps delivering after all calls returned until queues are empty.
	DrainAfterDone bool
	// Deadline (virtual) after which the run is ended even if calls are pending.
	HardStop time.Duration

	Pos int // position in Sched.Choices (exported so that a follow-up driver can continue)
	// StartAllFirst starts every call before anything is delivered.
	StartAllFirst bool
	t0            time.Time
	// MaxChosenTicks bounds the delays the schedule may CHOOSE while an action is enabled (0 = 12); forced ticks
	// (nothing else enabled) are not limited. ChosenTicks counts them.
	MaxChosenTicks int
	ChosenTicks    int
	Trace          []TraceEntry
	KeepTrace      bool
	Delivered      []int // frame seqs in delivery order
	Steps          int
	// Results
	HandlerPanic   string // panic inside HandleMessage on the dispatcher goroutine
	HandlerBlocked string // a HandleMessage call that did not return at quiescence
	// TolerateBlocked: a handler that is still blocked at quiescence is expected (the harness parks one on purpose)
	TolerateBlocked bool
	StepLimit       bool
	Overtakes       int // deliveries of a frame sent before an already delivered frame
	maxSeq          int
	runStart        time.Time
	Ticks           int
}

func (d *Driver) next(total int) int {
	if total <= 0 {
		return 0
	}
	if d.Pos < len(d.Sched.Choices) {
		c := d.Sched.Choices[d.Pos]
		d.Pos++
		if c < 0 {
			c = -c
		}
		return c % total
	}
	return 0
}

func (d *Driver) Now() time.Duration { return time.Since(d.t0) }

func (d *Driver) allDone() bool {
	for _, c := range d.Calls {
		if !c.IsDone() {
			return false
		}
	}
	return true
}

func (d *Driver) slotOfLink(l Link) int { return int(l.From)*31 + int(l.To)*7 }

// Deliver pops the head of link l and dispatches it, waiting for quiescence.
func (d *Driver) Deliver(l Link) {
	f := d.Net.Pop(l)
	if f == nil {
		return
	}
	d.DeliverFrame(f)
}

// DeliverFrame dispatches f to its destination handler on a dispatcher
// goroutine and waits until the system is quiescent again.
func (d *Driver) DeliverFrame(f *Frame) {
	if d.BeforeDeliver != nil && !d.BeforeDeliver(f) {
		return
	}
	h := d.Net.Handler(f.To)
	if h == nil {
		return
	}
	if f.Seq < d.maxSeq {
		d.Overtakes++
	} else {
		d.maxSeq = f.Seq
	}
	d.Delivered = append(d.Delivered, f.Seq)
	done := make(chan string, 1)
	go func() {
		defer func() {
			if r := recover(); r != nil {
				done <- fmt.Sprintf("panic: %v\n%s", r, trimStack(debug.Stack()))
				return
			}
			done <- ""
		}()
		h.HandleMessage(f.Inc())
	}()
	synctest.Wait()
	select {
	case p := <-done:
		if p != "" && d.HandlerPanic == "" {
			d.HandlerPanic = fmt.Sprintf("HandleMessage(from=%d,to=%d,type=%d,len=%d): %s", f.From, f.To, f.MsgType, len(f.Data), p)
		}
	default:
		if d.HandlerBlocked == "" && !d.TolerateBlocked {
			d.HandlerBlocked = fmt.Sprintf("HandleMessage(from=%d,to=%d,type=%d,len=%d) still blocked at quiescence", f.From, f.To, f.MsgType, len(f.Data))
		}
	}
}

func trimStack(b []byte) string {
	s := string(b)
	lines := strings.Split(s, "\n")
	if len(lines) > 40 {
		lines = lines[:40]
	}
	return strings.Join(lines, "\n")
}

// StartCall launches c.
func (d *Driver) StartCall(c *Call) {
	c.Started = true
	c.StartedAt = d.Now()
	go func() {
		defer func() {
			if r := recover(); r != nil {
				c.mu.Lock()
				c.Panic = fmt.Sprintf("panic: %v\n%s", r, trimStack(debug.Stack()))
				c.Done = true
				c.mu.Unlock()
			}
			c.mu.Lock()
			c.ReturnedAt = time.Since(d.t0)
			c.mu.Unlock()
		}()
		c.Start(c)
	}()
	synctest.Wait()
}

// Run executes the schedule until every call has returned (and, with
// DrainAfterDone, every queue is empty), Until() holds, HardStop passes or
// MaxSteps is hit.
func (d *Driver) Run() {
	if d.t0.IsZero() {
		d.t0 = time.Now()
	}
	d.runStart = time.Now()
	if d.Tick == 0 {
		d.Tick = 200 * time.Millisecond
	}
	if d.MaxSteps == 0 {
		d.MaxSteps = 200000
	}
	if d.StartAllFirst {
		for _, c := range d.Calls {
			if !c.Started {
				d.StartCall(c)
			}
		}
	}
	for {
		synctest.Wait()
		if d.AfterStep != nil {
			d.AfterStep()
		}
		if d.Until != nil && d.Until() {
			return
		}
		pending := d.Net.Pending()
		var unstarted []*Call
		for _, c := range d.Calls {
			if !c.Started {
				unstarted = append(unstarted, c)
			}
		}
		if len(unstarted) == 0 && d.allDone() && d.Until == nil {
			if !d.DrainAfterDone || len(pending) == 0 {
				return
			}
		}
		if d.HardStop > 0 && time.Since(d.runStart) > d.HardStop {
			return
		}
		if d.Steps >= d.MaxSteps {
			d.StepLimit = true
			return
		}
		d.Steps++

		var acts []Action
		for _, l := range pending {
			l := l
			acts = append(acts, Action{Name: fmt.Sprintf("d%d>%d", l.From, l.To), Slot: d.slotOfLink(l), Do: func() { d.Deliver(l) }})
		}
		for i, c := range d.Calls {
			if !c.Started {
				c := c
				acts = append(acts, Action{Name: "start:" + c.Name, Slot: 1000 + i*13, Do: func() { d.StartCall(c) }})
			}
		}
		if d.Extra != nil {
			acts = append(acts, d.Extra()...)
		}
		// weights: ordinary actions count 8x their table weight, a tick
		// counts 1, so a tick (= 200ms of virtual delay for everybody) is a
		// rare choice while anything else is enabled. Zero-weight actions
		// are served only when no positively weighted action is enabled.
		total := 0
		ws := make([]int, len(acts))
		for i, a := range acts {
			ws[i] = 8 * d.Sched.weight(a.Slot)
			total += ws[i]
		}
		if total == 0 {
			for i := range acts {
				ws[i] = 8
				total += 8
			}
		}
		chosen := -1
		if len(acts) > 0 {
			pick := d.next(total + 1)
			for i := range acts {
				if pick < ws[i] {
					chosen = i
					break
				}
				pick -= ws[i]
			}
		}
		if chosen < 0 && len(acts) > 0 {
			// the schedule chose a delay although something could be delivered. Fairness: such chosen delays are bounded
			// per driver (default 12 = 2.4 s of virtual time), otherwise a schedule can sit out any deadline and every
			// "completes if everything is delivered" oracle would blame the library for the harness's own starvation
			limit := d.MaxChosenTicks
			if limit == 0 {
				limit = 12
			}
			if d.ChosenTicks >= limit {
				chosen = d.ChosenTicks % len(acts)
			}
			d.ChosenTicks++
		}
		if chosen >= 0 {
			if d.KeepTrace {
				d.Trace = append(d.Trace, TraceEntry{A: acts[chosen].Name})
			}
			acts[chosen].Do()
			continue
		}
		d.Ticks++
		if d.KeepTrace {
			d.Trace = append(d.Trace, TraceEntry{A: "tick"})
		}
		time.Sleep(d.Tick)
	}
}

// ---------------------------------------------------------------------------
// bubble

// BubbleResult says how the bubble ended.
type BubbleResult struct {
	Leaked   bool   // root returned while goroutines were still blocked
	Deadlock bool   // every goroutine incl. the root was blocked with no timer pending
	Panic    string // panic on the root goroutine
}

// Bubble runs f in a synctest bubble and classifies how it ended. A panic in
// a goroutine other than the root still kills the process (see the driver's
// journal handling).
func Bubble(t *testing.T, f func()) (res BubbleResult) {
	defer func() {
		if r := recover(); r != nil {
			msg := fmt.Sprint(r)
			switch {
			case strings.Contains(msg, "blocked goroutines remain"):
				res.Leaked = true
			case strings.Contains(msg, "all goroutines in bubble are blocked"):
				res.Deadlock = true
			default:
				panic(r)
			}
		}
	}()
	synctest.Test(t, func(*testing.T) {
		defer func() {
			if r := recover(); r != nil {
				res.Panic = fmt.Sprintf("%v\n%s", r, trimStack(debug.Stack()))
			}
		}()
		f()
	})
	return
}
