// Package stack builds clusters of real threshold.Scheme instances (loud or
// silent) on the simulated network.
package stack

import (
	"context"
	"sort"
	"sync"
	"time"

	"github.com/IBM/TSS/threshold"
	tss "github.com/IBM/TSS/types"

	"verif/core/sim"
)

type Node struct {
	ID     uint16
	Party  tss.MpcParty
	Logger *sim.Logger
}

// Stop ends the silent-mode buffer's clock goroutine, if there is one.
func (n *Node) Stop() {
	if s, ok := n.Party.(interface{ Stop() }); ok {
		func() {
			defer func() { _ = recover() }() // Stop() on a box that was never initialised
			s.Stop()
		}()
	}
}

type Config struct {
	// Membership: node id -> party id (the same function result on every node).
	Membership map[uint16]uint16
	Silent     bool
	// Threshold is Scheme.Threshold (signing needs Threshold+1 signers).
	Threshold int
	KGF       func(node uint16) tss.KeyGenFactory
	SF        func(node uint16) tss.SignerFactory
	// Pick is the silent-mode member selection (per node so that a test can
	// make nodes disagree); nil = all nodes when expected == len(Membership).
	Pick func(node uint16) func(topic []byte, expected int) []uint16
	// Nodes to instantiate (default: every key of Membership).
	Nodes []uint16
}

type Cluster struct {
	Net   *sim.Net
	Nodes map[uint16]*Node
	IDs   []uint16
	Cfg   Config
}

func SortedKeys(m map[uint16]uint16) []uint16 {
	var ids []uint16
	for k := range m {
		ids = append(ids, k)
	}
	sort.Slice(ids, func(i, j int) bool { return ids[i] < ids[j] })
	return ids
}

func New(net *sim.Net, cfg Config) *Cluster {
	c := &Cluster{Net: net, Nodes: map[uint16]*Node{}, Cfg: cfg}
	ids := cfg.Nodes
	if ids == nil {
		ids = SortedKeys(cfg.Membership)
	}
	c.IDs = ids
	membership := func() map[tss.UniversalID]tss.PartyID {
		m := make(map[tss.UniversalID]tss.PartyID, len(cfg.Membership))
		for u, p := range cfg.Membership {
			m[tss.UniversalID(u)] = tss.PartyID(p)
		}
		return m
	}
	for _, id := range ids {
		lg := &sim.Logger{}
		var kgf tss.KeyGenFactory
		var sf tss.SignerFactory
		if cfg.KGF != nil {
			kgf = cfg.KGF(id)
		}
		if cfg.SF != nil {
			sf = cfg.SF(id)
		}
		var p tss.MpcParty
		if cfg.Silent {
			pick := func(topic []byte, expected int) []uint16 {
				return append([]uint16(nil), SortedKeys(cfg.Membership)...)
			}
			if cfg.Pick != nil {
				pick = cfg.Pick(id)
			}
			p = threshold.SilentScheme(id, lg, kgf, sf, cfg.Threshold, net.SendFunc(id), membership, pick)
		} else {
			p = threshold.LoudScheme(id, lg, kgf, sf, cfg.Threshold, net.SendFunc(id), membership)
		}
		n := &Node{ID: id, Party: p, Logger: lg}
		c.Nodes[id] = n
		net.Attach(id, p)
	}
	return c
}

func (c *Cluster) StopAll() {
	for _, n := range c.Nodes {
		n.Stop()
	}
}

// KeyGenCall builds the sim.Call that runs KeyGen on node id.
func (c *Cluster) KeyGenCall(ctx context.Context, id uint16, n, t int) *sim.Call {
	node := c.Nodes[id]
	return &sim.Call{Name: "keygen@" + itoa(id), Start: func(call *sim.Call) {
		data, err := node.Party.KeyGen(ctx, n, t)
		call.Finish(data, err)
	}}
}

// SignCall builds the sim.Call that runs Sign on node id.
func (c *Cluster) SignCall(ctx context.Context, id uint16, digest []byte, topic string) *sim.Call {
	node := c.Nodes[id]
	return &sim.Call{Name: "sign@" + itoa(id), Start: func(call *sim.Call) {
		sig, err := node.Party.Sign(ctx, digest, topic)
		call.Finish(sig, err)
	}}
}

func itoa(v uint16) string {
	if v == 0 {
		return "0"
	}
	var b []byte
	for v > 0 {
		b = append([]byte{byte('0' + v%10)}, b...)
		v /= 10
	}
	return string(b)
}

// CtxWaiter is a helper for harness-written backends: wait on a condition
// with context cancellation.
type CtxWaiter struct {
	Mu   sync.Mutex
	cond *sync.Cond
}

func (w *CtxWaiter) init() {
	if w.cond == nil {
		w.cond = sync.NewCond(&w.Mu)
	}
}

// Broadcast wakes waiters; call with Mu held or not.
func (w *CtxWaiter) Wake() { w.Mu.Lock(); w.init(); w.cond.Broadcast(); w.Mu.Unlock() }

// WaitFor blocks until pred() (evaluated under Mu) or ctx is done. Returns ctx.Err() on cancellation.
func (w *CtxWaiter) WaitFor(ctx context.Context, pred func() bool) error {
	w.Mu.Lock()
	w.init()
	stop := make(chan struct{})
	defer close(stop)
	go func() {
		select {
		case <-ctx.Done():
			w.Mu.Lock()
			w.cond.Broadcast()
			w.Mu.Unlock()
		case <-stop:
		}
	}()
	defer w.Mu.Unlock()
	for !pred() {
		if ctx.Err() != nil {
			return ctx.Err()
		}
		w.cond.Wait()
	}
	return nil
}

// Linger lets background goroutines run for d of virtual time.
func Linger(d time.Duration) { time.Sleep(d) }
