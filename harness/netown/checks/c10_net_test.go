package checks

import (
	"encoding/binary"
	"fmt"
	gonet "net"
	"testing"
	"time"

	"pgregory.net/rapid"

	"verif/vh"
)

// C10, "... or the connection handshake, can make the process panic, exit or hang ...; service to other peers continues":
// generated hostile clients at the connection level of the bundled transport. Each opens a connection to one party and
// stalls or misbehaves somewhere between the TCP accept and the first frame; AFTERWARDS a fresh connection of an honest
// peer (library sender and hand-driven client) must still be served. A panic in the transport kills the test binary and
// is reported by the driver as a crash.

type c10NetClient struct {
	// Stage at which the client stops co-operating:
	// 0 nothing sent after TCP connect; 1 a prefix of a TLS record (Bytes); 2 TLS completed, then silence;
	// 3 TLS completed, then a handshake length prefix announcing Len bytes followed by only Cut of them;
	// 4 TLS completed, valid handshake, then a frame header announcing Len bytes followed by only Cut of them;
	// 5 TLS completed, then raw garbage (Bytes) instead of a handshake
	Stage int
	Bytes []byte
	Len   int
	Cut   int
	Close bool // close the connection at once instead of holding it open
}

type c10NetCase struct {
	Clients []c10NetClient
	Target  int // party under attack, 1..3
}

func genC10Net(t *rapid.T) c10NetCase {
	n := rapid.IntRange(1, 4).Draw(t, "clients")
	c := c10NetCase{Target: rapid.IntRange(1, 3).Draw(t, "target")}
	for i := 0; i < n; i++ {
		cl := c10NetClient{Stage: rapid.IntRange(0, 5).Draw(t, "stage"), Close: rapid.IntRange(0, 3).Draw(t, "close") == 0}
		switch cl.Stage {
		case 1:
			// a TLS record header (type 22 = handshake, version 3.1/3.3, length) cut anywhere, or arbitrary bytes
			hdr := []byte{22, 3, byte(rapid.SampledFrom([]int{1, 3}).Draw(t, "ver")), 0, 0}
			binary.BigEndian.PutUint16(hdr[3:], uint16(rapid.SampledFrom([]int{0, 1, 5, 512, 16384, 65535}).Draw(t, "reclen")))
			body := rapid.SliceOfN(rapid.Byte(), 0, 12).Draw(t, "body")
			full := append(hdr, body...)
			if rapid.Bool().Draw(t, "arbitrary") {
				full = rapid.SliceOfN(rapid.Byte(), 1, 16).Draw(t, "raw")
			}
			cl.Bytes = full[:rapid.IntRange(1, len(full)).Draw(t, "cut")]
		case 3:
			cl.Len = rapid.SampledFrom([]int{0, 1, 2, 100, 4096, 65535}).Draw(t, "len")
			cl.Cut = rapid.IntRange(0, 64).Draw(t, "cut")
			if cl.Cut > cl.Len {
				cl.Cut = cl.Len
			}
		case 4:
			cl.Len = rapid.SampledFrom([]int{1, 100, 1 << 20, 100 * 1024 * 1024, 1<<32 - 1}).Draw(t, "len")
			cl.Cut = rapid.IntRange(0, 64).Draw(t, "cut")
			if cl.Cut > cl.Len {
				cl.Cut = cl.Len
			}
		case 5:
			cl.Bytes = rapid.SliceOfN(rapid.Byte(), 1, 300).Draw(t, "garbage")
		}
		c.Clients = append(c.Clients, cl)
	}
	return c
}

func runC10Net(c c10NetCase) *vh.Outcome {
	o := &vh.Outcome{NonTrivial: true, Key: fmt.Sprintf("%+v", c)}
	w := getC17World()
	if c.Target < 1 || c.Target > 3 {
		c.Target = 1
	}
	victim := w.parties[c.Target]
	var held []interface{ Close() error }
	defer func() {
		for _, h := range held {
			h.Close()
		}
	}()
	for _, cl := range c.Clients {
		o.Classes = append(o.Classes, fmt.Sprintf("stage=%d", cl.Stage))
		switch cl.Stage {
		case 0, 1:
			cn, err := gonet.DialTimeout("tcp", victim.srv.Addr, 3*time.Second)
			if err != nil {
				o.Fail = vh.Failf("C10/net/connect-refused", "party %d no longer accepts TCP connections: %v", c.Target, err)
				return o
			}
			if cl.Stage == 1 {
				_, _ = cn.Write(cl.Bytes)
			}
			if cl.Close {
				cn.Close()
			} else {
				held = append(held, cn)
			}
		default:
			rc, err := dialRaw(victim.srv.Addr, victim.srv.Pool)
			if err != nil {
				// an earlier hostile client may already have wedged the accept loop: that is the finding
				o.Fail = vh.Failf("C10/net/wedged-by-hostile-client", "party %d did not complete a TLS handshake with a new connection within 5s after hostile clients %+v: %v", c.Target, c.Clients, err)
				return o
			}
			switch cl.Stage {
			case 3:
				b := make([]byte, 2+cl.Cut)
				binary.LittleEndian.PutUint16(b, uint16(cl.Len))
				for i := 2; i < len(b); i++ {
					b[i] = byte(i * 7)
				}
				_, _ = rc.c.Write(b)
			case 4:
				_, _ = rc.c.Write(encodeHandshake(signedHandshake(w.parties[0].ident, "", rc.binding)))
				b := make([]byte, 5+32+cl.Cut)
				b[0] = 2
				binary.LittleEndian.PutUint32(b[1:], uint32(cl.Len))
				copy(b[5:], netTopic(5))
				_, _ = rc.c.Write(b)
			case 5:
				_, _ = rc.c.Write(cl.Bytes)
			}
			if cl.Close {
				rc.close()
			} else {
				held = append(held, rc.c)
			}
		}
	}
	time.Sleep(30 * time.Millisecond)
	// service to other peers continues: a NEW connection of an honest peer, by hand and through the library's sender
	tag := fmt.Sprintf("c10net-%d", time.Now().UnixNano())
	other := w.parties[(c.Target%3)+1]
	if other.id == c.Target {
		other = w.parties[0]
	}
	rc, err := rawValidConn(w, 0, c.Target)
	if err != nil {
		o.Fail = vh.Failf("C10/net/wedged-by-hostile-client", "party %d did not complete the handshake of a new honest connection after hostile clients %+v: %v", c.Target, c.Clients, err)
		return o
	}
	defer rc.close()
	_, _ = rc.c.Write(encodeFrame(2, netTopic(4), []byte(tag+"-raw")))
	fresh := w.remoteFor(other, victim.srv.Addr, c.Target)
	fresh.Send(2, netTopic(4), []byte(tag+"-lib"), uint16(c.Target))
	for _, mk := range []string{tag + "-raw", tag + "-lib"} {
		if !waitMarker(victim.srv, mk, 10*time.Second) {
			o.Fail = vh.Failf("C10/net/wedged-by-hostile-client", "after hostile clients %+v party %d did not receive the message of a new honest connection (%s) within 10s", c.Clients, c.Target, mk)
			return o
		}
	}
	return o
}

func TestC10Net(t *testing.T) {
	p := vh.Prop[c10NetCase]{ID: "C10", Test: "TestC10Net", Gen: genC10Net, Run: runC10Net}
	p.Main(t)
}
