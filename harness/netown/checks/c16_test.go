package checks

import (
	"bytes"
	"crypto/sha256"
	"encoding/binary"
	"fmt"
	"strings"
	"sync"
	"testing"
	"time"

	tssnet "github.com/IBM/TSS/net"
	"github.com/IBM/TSS/testutil/tlsgen"
	"pgregory.net/rapid"

	"verif/vh"
)

// C16: the transport attributes traffic only to peers that proved their
// registered identity (DESIGN.md §3 C16). Real TLS over loopback, real time.

var c16Variants = []string{
	"valid",                                   // 0 control
	"domain-other-registered",                 // 1 identity registered under A presented with domain B (properly signed)
	"domain-unregistered",                     // 2
	"domain-altered-after-signing",            // 3
	"binding-bit-flipped",                     // 4 (signed over the altered binding)
	"binding-truncated",                       // 5
	"binding-empty",                           // 6
	"binding-of-another-connection",           // 7 (signed)
	"identity-other-registered-own-signature", // 8 peer j's certificate, signed by peer i
	"identity-unregistered-same-ca",           // 9
	"identity-other-ca",                       // 10
	"identity-self-signed",                    // 11
	"identity-malformed-pem",                  // 12
	"identity-der-garbage",                    // 13
	"timestamp-altered-after-signing",         // 14
	"signature-bit-flipped",                   // 15
	"signature-truncated",                     // 16
	"signature-empty",                         // 17
	"signature-by-another-key",                // 18
	"signature-over-another-handshake",        // 19
	"replayed-from-another-connection",        // 20 byte-for-byte handshake recorded on c1, sent on c2
	"rsa-identity-registered",                 // 21
	"ed25519-identity-registered",             // 22
	"rsa-identity-garbage-signature",          // 23
	"truncated-encoding",                      // 24 every prefix length drawn
	"length-prefix-too-big",                   // 25
	"length-prefix-too-small",                 // 26
	"raw-random-bytes",                        // 27
	"empty-handshake",                         // 28
	"identity-swapped-with-binding",           // 29
	"lib-valid",                               // 30 the library's own client with a correct auth function (control)
	"lib-replayed-handshake",                  // 31 the library's client sends, on a new connection, the handshake it produced for an earlier one
	"replayed-with-stale-timestamp",           // 32 handshake for another connection, correctly signed, whose signed timestamp is 31 s .. 1 h old (recorded earlier / lagging clock)
	"replayed-with-future-timestamp",          // 33 the same with a timestamp ahead of the server's clock
	"domain-as-other-asn1-string-type",        // 34 own binding, registered ECDSA identity; the domain is encoded as T61String / GeneralString / IA5String / UTF8String / BMPString with bytes that are not valid UTF-8 (the decoder's string types are laxer than the encoder's)
}

type c16Conn struct {
	Variant int
	Peer    int // which registered peer the connection pretends to be / is
	Arg     int
}

type c16Case struct {
	Conns []c16Conn
	// Big: every message carries 6000 bytes, and every connection is followed by a connection without any identity that sends
	// 8 KiB of its own bytes where the handshake belongs. What the server attributed to a registered node must stay what
	// that node sent (the consumer keeps the delivered messages).
	Big bool `json:",omitempty"`
}

func genC16(t *rapid.T) c16Case {
	var c c16Case
	n := rapid.IntRange(10, 20).Draw(t, "nconns")
	for i := 0; i < n; i++ {
		v := rapid.IntRange(0, len(c16Variants)-1).Draw(t, "variant")
		if rapid.IntRange(0, 4).Draw(t, "honest") == 0 {
			v = 0
		}
		c.Conns = append(c.Conns, c16Conn{Variant: v, Peer: rapid.IntRange(0, 3).Draw(t, "peer"), Arg: rapid.IntRange(0, 100000).Draw(t, "arg")})
	}
	c.Big = rapid.IntRange(0, 3).Draw(t, "big") == 0
	return c
}

type c16World struct {
	srv      *netServer
	peers    []*netIdentity // registered ECDSA peers 0..3
	domains  []string       // domain under which each peer is registered
	ids      []uint16
	rsa, ed  *netIdentity
	unreg    *netIdentity // same CA, not registered
	otherCA  *netIdentity
	selfSign *netIdentity
	seq      int
	// rawOK: the harness's own derivation of the channel binding (TLS exporter, label "MPC") is what the
	// library uses: a raw valid handshake is accepted. Probed once; if not, raw variants that depend on a
	// correct binding are discarded and only the library-client variants run.
	rawOK bool
}

// libSend opens a connection with the library's own client side, lets auth build the handshake from the
// binding the library computed for that connection, and sends one frame with the marker.
func (w *c16World) libSend(domain string, auth func(binding []byte) tssnet.Handshake, marker string) {
	rp := tssnet.NewSocketRemoteParty(tssnet.PartyConnectionConfig{AuthFunc: auth, Domain: domain, Id: 0, Endpoint: w.srv.Addr, TlsCAs: w.srv.Pool}, &nopLogger{})
	tssnet.SocketRemoteParties{0: rp}.Send(uint8(tssnet.MsgTypeMPC), netTopic(1), []byte(marker), 0)
}

var (
	c16Once sync.Once
	c16W    *c16World
)

func getC16World() *c16World {
	c16Once.Do(func() {
		ca, err := tlsgen.NewCA()
		if err != nil {
			panic(err)
		}
		ca2, _ := tlsgen.NewCA()
		w := &c16World{domains: []string{"", "A", "A", "B"}, ids: []uint16{10, 11, 12, 13}}
		p2id := map[string]uint16{}
		for i := 0; i < 4; i++ {
			id := newECDSAIdentity(ca, fmt.Sprintf("peer%d", i))
			w.peers = append(w.peers, id)
			p2id[lookupKey(w.domains[i], id.Cert)] = w.ids[i]
		}
		w.rsa = otherKeyIdentity("rsa", "rsa-peer")
		w.ed = otherKeyIdentity("ed25519", "ed-peer")
		p2id[lookupKey("", w.rsa.Cert)] = 20
		p2id[lookupKey("", w.ed.Cert)] = 21
		w.unreg = newECDSAIdentity(ca, "unregistered")
		w.otherCA = newECDSAIdentity(ca2, "other-ca")
		w.selfSign = selfSignedECDSA("self-signed")
		w.srv = newNetServer(ca, p2id)
		// probe of the harness's binding derivation
		if rc, err := dialRaw(w.srv.Addr, w.srv.Pool); err == nil {
			_, _ = rc.c.Write(encodeHandshake(signedHandshake(w.peers[0], w.domains[0], rc.binding)))
			_, _ = rc.c.Write(encodeFrame(uint8(tssnet.MsgTypeMPC), netTopic(1), []byte("probe-raw")))
			w.rawOK = w.srv.waitFor(func(got []tssnet.InMsg) bool {
				for _, m := range got {
					if string(m.Data) == "probe-raw" {
						return true
					}
				}
				return false
			}, 3*time.Second)
			rc.close()
		}
		c16W = w
	})
	return c16W
}

type c16Sent struct {
	Marker  string
	Variant string
	Valid   bool
	From    uint16
	Domain  string
}

func runC16(c c16Case) *vh.Outcome {
	o := &vh.Outcome{}
	w := getC16World()
	var sent []c16Sent
	var conns []*rawConn
	defer func() {
		for _, rc := range conns {
			rc.close()
		}
	}()
	// one spare connection whose binding / handshake is used by the cross-connection variants
	spare, err := dialRaw(w.srv.Addr, w.srv.Pool)
	if err != nil {
		o.Discard = "dial-failed"
		return o
	}
	conns = append(conns, spare)
	nontrivial := 0
	gotBefore := len(w.srv.snapshot())
	pad := ""
	if c.Big {
		pad = "|" + strings.Repeat("H", 6000)
	}
	// garbageConn: a connection without identity that sends 8 KiB of 'X' (length-prefixed) where the handshake belongs
	garbageConn := func() {
		if !c.Big {
			return
		}
		gc, err := dialRaw(w.srv.Addr, w.srv.Pool)
		if err != nil {
			return
		}
		conns = append(conns, gc)
		b := make([]byte, 2+8192)
		binary.LittleEndian.PutUint16(b, 8192)
		for i := 2; i < len(b); i++ {
			b[i] = 'X'
		}
		_ = gc.c.SetWriteDeadline(time.Now().Add(3 * time.Second))
		_, _ = gc.c.Write(b)
	}
	libConns, discardedRaw := 0, 0
	var bmu sync.Mutex
	var bindings [][]byte
	for _, cn := range c.Conns {
		w.seq++
		marker := fmt.Sprintf("m-%d-%d", time.Now().UnixNano(), w.seq) + pad
		garbageConn()
		peer := cn.Peer % 4
		id := w.peers[peer]
		domain := w.domains[peer]
		vname := c16Variants[cn.Variant%len(c16Variants)]
		s := c16Sent{Marker: marker, Variant: vname}
		if vname == "lib-valid" || vname == "lib-replayed-handshake" {
			if libConns >= 3 {
				continue // the library's client has no way to close a connection: keep their number small
			}
			libConns++
			if vname == "lib-valid" {
				s.Valid, s.From, s.Domain = true, w.ids[peer], domain
				w.libSend(domain, func(b []byte) tssnet.Handshake {
					bmu.Lock()
					bindings = append(bindings, append([]byte(nil), b...))
					bmu.Unlock()
					return signedHandshake(id, domain, b)
				}, marker)
			} else {
				// first a correct connection whose handshake is recorded, then a second connection that presents the recording
				var recorded *tssnet.Handshake
				first := fmt.Sprintf("first-%s", marker)
				done := make(chan struct{})
				w.libSend(domain, func(b []byte) tssnet.Handshake {
					h := signedHandshake(id, domain, b)
					recorded = &h
					bmu.Lock()
					bindings = append(bindings, append([]byte(nil), b...))
					bmu.Unlock()
					close(done)
					return h
				}, first)
				select {
				case <-done:
				case <-time.After(5 * time.Second):
				}
				sent = append(sent, c16Sent{Marker: first, Variant: "lib-valid", Valid: true, From: w.ids[peer], Domain: domain})
				if recorded != nil {
					rec := *recorded
					w.libSend(domain, func(b []byte) tssnet.Handshake {
						bmu.Lock()
						bindings = append(bindings, append([]byte(nil), b...))
						bmu.Unlock()
						return rec
					}, marker)
					nontrivial++
				}
			}
			sent = append(sent, s)
			continue
		}
		if !w.rawOK {
			discardedRaw++
			continue
		}
		rc, err := dialRaw(w.srv.Addr, w.srv.Pool)
		if err != nil {
			o.Discard = "dial-failed"
			return o
		}
		conns = append(conns, rc)
		h := signedHandshake(id, domain, rc.binding)
		var wire []byte
		semantic := true // differs from a valid handshake in one semantic respect and still decodes
		switch vname {
		case "valid":
			s.Valid, s.From, s.Domain = true, w.ids[peer], domain
			semantic = false
		case "domain-other-registered":
			other := "B"
			if domain == "B" {
				other = "A"
			}
			h = signedHandshake(id, other, rc.binding)
		case "domain-unregistered":
			h = signedHandshake(id, "nowhere", rc.binding)
		case "domain-altered-after-signing":
			h.Domain = domain + "x"
		case "binding-bit-flipped":
			b := append([]byte(nil), rc.binding...)
			b[cn.Arg%len(b)] ^= 1 << uint(cn.Arg%8)
			h = signedHandshake(id, domain, b)
		case "binding-truncated":
			h = signedHandshake(id, domain, rc.binding[:cn.Arg%31])
		case "binding-empty":
			h = signedHandshake(id, domain, nil)
		case "binding-of-another-connection":
			h = signedHandshake(id, domain, spare.binding)
		case "identity-other-registered-own-signature":
			victim := w.peers[(peer+1)%4]
			h = signedHandshake(&netIdentity{Cert: victim.Cert, Signer: id.Signer, Kind: "ecdsa"}, w.domains[(peer+1)%4], rc.binding)
		case "identity-unregistered-same-ca":
			h = signedHandshake(w.unreg, domain, rc.binding)
		case "identity-other-ca":
			h = signedHandshake(w.otherCA, domain, rc.binding)
		case "identity-self-signed":
			h = signedHandshake(w.selfSign, domain, rc.binding)
		case "identity-malformed-pem":
			bad := append([]byte(nil), id.Cert...)
			bad[5] = 'X'
			h = signedHandshake(&netIdentity{Cert: bad, Signer: id.Signer, Kind: "ecdsa"}, domain, rc.binding)
		case "identity-der-garbage":
			h = signedHandshake(&netIdentity{Cert: []byte("-----BEGIN CERTIFICATE-----\nAAAA\n-----END CERTIFICATE-----\n"), Signer: id.Signer, Kind: "ecdsa"}, domain, rc.binding)
		case "timestamp-altered-after-signing":
			h.Timestamp += 1 + int64(cn.Arg%100)
		case "signature-bit-flipped":
			h.Signature[cn.Arg%len(h.Signature)] ^= 1 << uint(cn.Arg%8)
		case "signature-truncated":
			h.Signature = h.Signature[:cn.Arg%len(h.Signature)]
		case "signature-empty":
			h.Signature = nil
		case "signature-by-another-key":
			h = signedHandshake(&netIdentity{Cert: id.Cert, Signer: w.peers[(peer+1)%4].Signer, Kind: "ecdsa"}, domain, rc.binding)
		case "signature-over-another-handshake":
			other := signedHandshake(id, domain, spare.binding)
			h.Signature = other.Signature
		case "replayed-from-another-connection":
			h = signedHandshake(id, domain, spare.binding)
		case "replayed-with-stale-timestamp":
			h = signedHandshakeAt(id, domain, spare.binding, time.Now().Unix()-int64([]int{31, 45, 61, 600, 3600}[cn.Arg%5]))
		case "replayed-with-future-timestamp":
			h = signedHandshakeAt(id, domain, spare.binding, time.Now().Unix()+int64([]int{31, 45, 600}[cn.Arg%3]))
		case "rsa-identity-registered":
			h = signedHandshake(w.rsa, "", rc.binding)
		case "ed25519-identity-registered":
			h = signedHandshake(w.ed, "", rc.binding)
		case "rsa-identity-garbage-signature":
			h = signedHandshake(w.rsa, "", rc.binding)
			h.Signature = []byte{0x30, 0x06, 0x02, 0x01, 0x01, 0x02, 0x01, 0x01}
		case "truncated-encoding":
			full := encodeHandshake(h)
			wire = full[:cn.Arg%len(full)]
			semantic = false
		case "length-prefix-too-big":
			full := encodeHandshake(h)
			full[0], full[1] = 0xFF, 0xFF
			wire = full
			semantic = false
		case "length-prefix-too-small":
			full := encodeHandshake(h)
			full[0], full[1] = byte(cn.Arg%40), 0
			wire = full
			semantic = false
		case "raw-random-bytes":
			d := sha256.Sum256([]byte(marker))
			wire = append(d[:], d[:cn.Arg%32]...)
			semantic = false
		case "empty-handshake":
			wire = []byte{0, 0}
			semantic = false
		case "identity-swapped-with-binding":
			h.Identity, h.TLSBinding = h.TLSBinding, h.Identity
		case "domain-as-other-asn1-string-type":
			h = signedHandshake(id, "AAAA", rc.binding)
			raw := h.Bytes()
			if i := bytes.Index(raw, []byte{19, 4, 'A', 'A', 'A', 'A'}); i >= 0 { // PrintableString "AAAA"
				raw[i] = []byte{20, 27, 22, 12, 30, 26, 18}[cn.Arg%7] // T61, General, IA5, UTF8, BMP, Visible, Numeric
				fill := [][]byte{{0xff, 0xfe}, {0xc3, 0x28}, {0xed, 0xa0}, {0x80, 0x80}}[(cn.Arg/7)%4]
				raw[i+2], raw[i+3] = fill[0], fill[1]
			}
			wire = make([]byte, 2+len(raw))
			binary.LittleEndian.PutUint16(wire, uint16(len(raw)))
			copy(wire[2:], raw)
			semantic = false
		}
		if wire == nil {
			wire = encodeHandshake(h)
		}
		if semantic {
			nontrivial++
		}
		frame := encodeFrame(uint8(tssnet.MsgTypeMPC), netTopic(1), []byte(marker))
		_ = rc.c.SetWriteDeadline(time.Now().Add(3 * time.Second))
		_, _ = rc.c.Write(wire)
		_, _ = rc.c.Write(frame)
		sent = append(sent, s)
	}
	// barrier: an honest connection whose frame must arrive, then a settle interval
	w.seq++
	garbageConn()
	barrier := fmt.Sprintf("barrier-%d-%d", time.Now().UnixNano(), w.seq) + pad
	if w.rawOK {
		bc, err := dialRaw(w.srv.Addr, w.srv.Pool)
		if err != nil {
			o.Discard = "dial-failed"
			return o
		}
		conns = append(conns, bc)
		_, _ = bc.c.Write(encodeHandshake(signedHandshake(w.peers[0], w.domains[0], bc.binding)))
		_, _ = bc.c.Write(encodeFrame(uint8(tssnet.MsgTypeMPC), netTopic(1), []byte(barrier)))
	} else {
		w.libSend(w.domains[0], func(b []byte) tssnet.Handshake { return signedHandshake(w.peers[0], w.domains[0], b) }, barrier)
	}
	wantValid := map[string]c16Sent{}
	for _, s := range sent {
		if s.Valid {
			wantValid[s.Marker] = s
		}
	}
	ok := w.srv.waitFor(func(got []tssnet.InMsg) bool {
		seen := map[string]bool{}
		for _, m := range got {
			seen[string(m.Data)] = true
		}
		if !seen[barrier] {
			return false
		}
		for mk := range wantValid {
			if !seen[mk] {
				return false
			}
		}
		return true
	}, 20*time.Second)
	time.Sleep(150 * time.Millisecond) // settle: slowness can only hide a leak, never invent one
	garbageConn()
	if c.Big {
		time.Sleep(100 * time.Millisecond)
	}
	got := w.srv.snapshot()
	byMarker := map[string][]tssnet.InMsg{}
	for _, m := range got {
		byMarker[string(m.Data)] = append(byMarker[string(m.Data)], m)
	}
	// whatever the server attributed to a node during this case is, byte for byte, something that was sent in this case
	// (delivered messages are kept by the consumer and must not change afterwards)
	sentContent := map[string]bool{barrier: true}
	for _, s := range sent {
		sentContent[s.Marker] = true
	}
	if gotBefore <= len(got) {
		for _, m := range got[gotBefore:] {
			if !sentContent[string(m.Data)] {
				foreign := bytes.Count(m.Data, []byte("X"))
				head := m.Data
				if len(head) > 40 {
					head = head[:40]
				}
				o.Fail = vh.Failf("C16/attributed-content-not-sent-by-that-node", "a message attributed to node %d (domain %q) carries %d bytes that no connection of this case sent as a message (%d of them are the byte an identity-less connection sent in place of its handshake); it starts with %q", m.From, m.Domain, len(m.Data), foreign, head)
				return o
			}
		}
	}
	bmu.Lock()
	for i := range bindings {
		if len(bindings[i]) == 0 {
			o.Fail = vh.Failf("C16/binding-not-unique", "the channel binding the library hands to the authentication function for a connection is empty")
		}
		for j := i + 1; j < len(bindings); j++ {
			if bytes.Equal(bindings[i], bindings[j]) && o.Fail == nil {
				o.Fail = vh.Failf("C16/binding-not-unique", "two different TLS connections were given the same channel binding (%d bytes) by the library", len(bindings[i]))
			}
		}
	}
	bmu.Unlock()
	if o.Fail != nil {
		return o
	}
	if discardedRaw > 0 {
		o.Classes = append(o.Classes, "raw-variants-discarded(binding-derivation-unknown)")
	}
	o.Key = fmt.Sprintf("%+v", c)
	o.NonTrivial = nontrivial > 0
	for _, s := range sent {
		o.Classes = append(o.Classes, "variant="+s.Variant)
	}
	for _, s := range sent {
		ms := byMarker[s.Marker]
		if !s.Valid {
			if len(ms) > 0 {
				o.Fail = vh.Failf("C16/attributed-without-proof/"+s.Variant, "a connection with handshake variant %q had its message attributed to node %d (domain %q)", s.Variant, ms[0].From, ms[0].Domain)
				return o
			}
			continue
		}
		if len(ms) != 1 {
			if !ok && len(ms) == 0 {
				o.Fail = vh.Failf("C16/valid-not-delivered", "a message sent over a valid handshake of registered peer %d did not arrive within 20s (honest connections interleaved with invalid ones must keep working)", s.From)
				return o
			}
			o.Fail = vh.Failf("C16/valid-count", "the message of a valid connection arrived %d times", len(ms))
			return o
		}
		if ms[0].From != s.From || ms[0].Domain != s.Domain {
			o.Fail = vh.Failf("C16/mis-attributed", "message of registered peer %d (domain %q) was attributed to node %d (domain %q)", s.From, s.Domain, ms[0].From, ms[0].Domain)
			return o
		}
	}
	if len(byMarker[barrier]) != 1 {
		o.Fail = vh.Failf("C16/valid-not-delivered", "the honest barrier connection's message did not arrive within 20s after a batch of %d connections (%d invalid)", len(sent), len(sent)-len(wantValid))
		return o
	}
	return o
}

func TestC16(t *testing.T) {
	vh.Prop[c16Case]{ID: "C16", Test: "TestC16", Gen: genC16, Run: runC16}.Main(t)
}

// TestC16Sweep: every variant once for every peer, deterministically.
func TestC16Sweep(t *testing.T) {
	p := vh.Prop[c16Case]{ID: "C16", Test: "TestC16Sweep", Run: runC16}
	if vh.EnvStr("VERIF_REPLAY_IN") != "" {
		p.Main(t)
		return
	}
	st := vh.NewStats("C16", "TestC16Sweep")
	defer st.Flush()
	p.Enumerate(t, st, func(yield func(c16Case) bool) {
		for v := range c16Variants {
			var c c16Case
			if v >= 30 { // library-client variants: one per batch (their connections cannot be closed)
				for peer := 0; peer < 2; peer++ {
					if !yield(c16Case{Conns: []c16Conn{{Variant: v, Peer: peer}, {Variant: 0, Peer: peer + 1}}}) {
						return
					}
				}
				continue
			}
			for peer := 0; peer < 4; peer++ {
				args := []int{0, 7, 31}
				if c16Variants[v] == "truncated-encoding" {
					args = []int{0, 1, 2, 3, 10, 50, 200, 400, 600, 700}
				}
				for _, a := range args {
					c.Conns = append(c.Conns, c16Conn{Variant: v, Peer: peer, Arg: a + peer*101})
				}
				c.Conns = append(c.Conns, c16Conn{Variant: 0, Peer: peer})
			}
			if !yield(c) {
				return
			}
		}
	})
	st.Note("TestC16Sweep: %d handshake variants x 4 registered peers (3 domains) x several arguments, each batch interleaved with valid connections", len(c16Variants))
}
