package checks

import (
	"bytes"
	"crypto/tls"
	"encoding/binary"
	"fmt"
	gonet "net"
	"runtime/debug"
	"sync"
	"sync/atomic"
	"testing"
	"time"

	tssnet "github.com/IBM/TSS/net"
	"github.com/IBM/TSS/testutil/tlsgen"
	"pgregory.net/rapid"

	"verif/vh"
)

// C17: the transport frames faithfully and isolates a failing peer
// (DESIGN.md §3 C17). Real TLS over loopback, real time.

type c17Party struct {
	id     int
	ident  *netIdentity
	srv    *netServer
	remote tssnet.SocketRemoteParties // destinations of this party
}

type c17World struct {
	ca      tlsgen.CA
	parties []*c17Party
	p2id    map[string]uint16
	caseNo  int
}

func (w *c17World) remoteFor(p *c17Party, endpoint string, id int) tssnet.SocketRemoteParties {
	ident := p.ident
	rp := tssnet.NewSocketRemoteParty(tssnet.PartyConnectionConfig{
		AuthFunc: func(b []byte) tssnet.Handshake { return signedHandshake(ident, "", b) },
		Domain:   "", Id: id, Endpoint: endpoint, TlsCAs: p.srv.Pool,
	}, &nopLogger{})
	return tssnet.SocketRemoteParties{id: rp}
}

var (
	c17Once sync.Once
	c17W    *c17World
)

func getC17World() *c17World {
	c17Once.Do(func() {
		ca, err := tlsgen.NewCA()
		if err != nil {
			panic(err)
		}
		w := &c17World{ca: ca, p2id: map[string]uint16{}}
		for i := 0; i < 4; i++ {
			id := newECDSAIdentity(ca, fmt.Sprintf("party%d", i))
			w.parties = append(w.parties, &c17Party{id: i, ident: id})
			w.p2id[lookupKey("", id.Cert)] = uint16(i)
		}
		for _, p := range w.parties {
			p.srv = newNetServer(ca, w.p2id)
		}
		for _, p := range w.parties {
			p.remote = tssnet.SocketRemoteParties{}
			for _, q := range w.parties {
				if q.id != p.id {
					for k, v := range w.remoteFor(p, q.srv.Addr, q.id) {
						p.remote[k] = v
					}
				}
			}
		}
		c17W = w
	})
	return c17W
}

// --- framing / ordering -----------------------------------------------------------------

var c17Lengths = []int{0, 1, 2, 31, 32, 33, 16*1024 - 1, 16 * 1024, 16*1024 + 1, 64*1024 - 1, 64 * 1024, 64*1024 + 1, 1 << 20}

type c17Stream struct {
	Party int   // sending party
	Dests []int // 1..3 destinations
	Lens  []int // indices into the length table, one per message
	Types []int // message type of each message
}

type c17Case struct {
	Streams []c17Stream // one goroutine each
	Big     bool        // include a frame of exactly the size limit (thorough)
}

func genC17(t *rapid.T) c17Case {
	var c c17Case
	ns := rapid.IntRange(1, 10).Draw(t, "nstreams")
	for i := 0; i < ns; i++ {
		s := c17Stream{Party: rapid.IntRange(0, 3).Draw(t, "party")}
		nd := rapid.IntRange(1, 3).Draw(t, "ndest")
		perm := rapid.Permutation([]int{0, 1, 2, 3}).Draw(t, "dests")
		for _, d := range perm {
			if d != s.Party && len(s.Dests) < nd {
				s.Dests = append(s.Dests, d)
			}
		}
		nm := rapid.IntRange(1, 12).Draw(t, "nmsg")
		for j := 0; j < nm; j++ {
			li := rapid.IntRange(0, len(c17Lengths)-1).Draw(t, "len")
			if li >= 6 && rapid.IntRange(0, 2).Draw(t, "small") != 0 {
				li = rapid.IntRange(0, 5).Draw(t, "len2")
			}
			s.Lens = append(s.Lens, li)
			s.Types = append(s.Types, rapid.SampledFrom([]int{1, 2, 2, 2, 0, 3, 7, 255}).Draw(t, "type"))
		}
		c.Streams = append(c.Streams, s)
	}
	return c
}

func c17Payload(caseNo, stream, seq, length int) []byte {
	hdr := []byte(fmt.Sprintf("c%d|s%d|q%d|", caseNo, stream, seq))
	if length < len(hdr) {
		// short payloads cannot carry the header: they are identified by position only (type + topic carry the stream)
		b := make([]byte, length)
		for i := range b {
			b[i] = byte(seq + i)
		}
		return b
	}
	b := make([]byte, length)
	copy(b, hdr)
	for i := len(hdr); i < length; i++ {
		b[i] = byte(i*31 + seq*7 + stream)
	}
	return b
}

// c17TopicFor encodes (case, stream) in the topic so that even empty payloads are attributable.
func c17TopicFor(caseNo, stream int) []byte {
	t := make([]byte, 32)
	binary.BigEndian.PutUint32(t, uint32(caseNo))
	binary.BigEndian.PutUint32(t[4:], uint32(stream))
	t[31] = 0x17
	return t
}

func runC17(c c17Case) *vh.Outcome {
	o := &vh.Outcome{}
	w := getC17World()
	w.caseNo++
	caseNo := w.caseNo
	type sentMsg struct {
		typ   uint8
		topic []byte
		data  []byte
	}
	sent := make([][]sentMsg, len(c.Streams))
	var wg sync.WaitGroup
	for si, st := range c.Streams {
		si, st := si, st
		// only topic-carrying types can be attributed to a stream when several streams share a link;
		// topic-less types are used by stream 0 of each (party, destination) pair only
		for j := range st.Lens {
			typ := uint8(st.Types[j])
			var topic []byte
			if typ == 1 || typ == 2 {
				topic = c17TopicFor(caseNo, si)
			} else {
				typ = 2 // keep the stream attributable; topic-less types are exercised by TestC17Types
				topic = c17TopicFor(caseNo, si)
			}
			sent[si] = append(sent[si], sentMsg{typ, topic, c17Payload(caseNo, si, j, c17Lengths[st.Lens[j]])})
		}
		wg.Add(1)
		go func() {
			defer wg.Done()
			dests := make([]uint16, len(st.Dests))
			for i, d := range st.Dests {
				dests[i] = uint16(d)
			}
			for _, m := range sent[si] {
				w.parties[st.Party].remote.Send(m.typ, m.topic, m.data, dests...)
			}
		}()
	}
	wg.Wait()
	// expected per (receiver, stream): the sent sequence
	deadline := 30 * time.Second
	var fail *vh.Failure
	check := func(final bool) bool {
		for si, st := range c.Streams {
			for _, d := range st.Dests {
				var got []tssnet.InMsg
				for _, m := range w.parties[d].srv.snapshot() {
					if len(m.Topic) == 32 && bytes.Equal(m.Topic, c17TopicFor(caseNo, si)) {
						got = append(got, m)
					}
				}
				if len(got) < len(sent[si]) {
					if final {
						fail = vh.Failf("C17/lost", "party %d received %d of the %d messages that goroutine %d of party %d sent to it (within %v)", d, len(got), len(sent[si]), si, st.Party, deadline)
					}
					return false
				}
				if len(got) > len(sent[si]) {
					fail = vh.Failf("C17/duplicated", "party %d received %d messages of a stream of %d", d, len(got), len(sent[si]))
					return true
				}
				for i, m := range got {
					exp := sent[si][i]
					if m.From != uint16(st.Party) {
						fail = vh.Failf("C17/mis-attributed", "message %d of party %d's stream was attributed to %d", i, st.Party, m.From)
						return true
					}
					if m.Type != exp.typ || !bytes.Equal(m.Data, exp.data) {
						kind := "C17/corrupted"
						for _, e2 := range sent[si] {
							if bytes.Equal(e2.data, m.Data) && e2.typ == m.Type {
								kind = "C17/reordered"
							}
						}
						fail = vh.Failf(kind, "party %d: position %d of the stream of goroutine %d of party %d: got type %d, %d bytes; sent type %d, %d bytes (payload equal: %v)", d, i, si, st.Party, m.Type, len(m.Data), exp.typ, len(exp.data), bytes.Equal(m.Data, exp.data))
						return true
					}
				}
			}
		}
		return true
	}
	start := time.Now()
	for !check(false) && fail == nil && time.Since(start) < deadline {
		time.Sleep(10 * time.Millisecond)
	}
	if fail == nil {
		check(true)
	}
	o.Fail = fail
	o.Key = fmt.Sprintf("%+v", c)
	boundary := false
	total := 0
	for _, st := range c.Streams {
		for _, li := range st.Lens {
			total++
			if li != 5 && li != 4 {
				boundary = boundary || li == 0 || li >= 6
			}
		}
	}
	o.NonTrivial = len(c.Streams) >= 2 || boundary
	o.Classes = append(o.Classes, fmt.Sprintf("streams=%d", len(c.Streams)))
	if boundary {
		o.Classes = append(o.Classes, "boundary-length")
	}
	o.Info = map[string]interface{}{"messages": total}
	return o
}

func TestC17(t *testing.T) {
	vh.Prop[c17Case]{ID: "C17", Test: "TestC17", Gen: genC17, Run: runC17,
		Sample: func(c c17Case, o *vh.Outcome) interface{} {
			return map[string]interface{}{"streams": len(c.Streams), "first": c.Streams[0], "info": o.Info}
		}}.Main(t)
}

// --- type/topic combinations, size limit, garbling, down and stalled peers ------------------

type c17ScenarioCase struct {
	Name string
}

func boolInt(b bool) int {
	if b {
		return 1
	}
	return 0
}

func rawValidConn(w *c17World, from, to int) (*rawConn, error) {
	rc, err := dialRaw(w.parties[to].srv.Addr, w.parties[to].srv.Pool)
	if err != nil {
		return nil, err
	}
	_, err = rc.c.Write(encodeHandshake(signedHandshake(w.parties[from].ident, "", rc.binding)))
	return rc, err
}

func waitMarker(s *netServer, marker string, d time.Duration) bool {
	return s.waitFor(func(got []tssnet.InMsg) bool {
		for _, m := range got {
			if bytes.HasPrefix(m.Data, []byte(marker)) {
				return true
			}
		}
		return false
	}, d)
}

// healthy checks that ordinary traffic between the given parties still flows.
func c17Healthy(w *c17World, tag string, parties []int) *vh.Failure {
	for _, a := range parties {
		for _, b := range parties {
			if a == b {
				continue
			}
			mk := fmt.Sprintf("healthy-%s-%d-%d-%d", tag, a, b, time.Now().UnixNano())
			w.parties[a].remote.Send(2, netTopic(99), []byte(mk), uint16(b))
			if !waitMarker(w.parties[b].srv, mk, 20*time.Second) {
				return vh.Failf("C17/isolation/"+tag, "while one peer is %s, a message from party %d to party %d did not arrive within 20s", tag, a, b)
			}
		}
	}
	return nil
}

func runC17Scenario(c c17ScenarioCase) *vh.Outcome {
	o := &vh.Outcome{NonTrivial: true, Key: c.Name}
	w := getC17World()
	o.Classes = append(o.Classes, "scenario="+c.Name)
	const limit = 20 * 1024 * 1024
	switch c.Name {
	case "types-and-limit":
		// every message type: 1 and 2 with a topic, the others without; empty and non-empty payloads
		rc, err := rawValidConn(w, 0, 1)
		if err != nil {
			o.Discard = "dial-failed"
			return o
		}
		defer rc.close()
		tag := fmt.Sprintf("types-%d", time.Now().UnixNano())
		var want []string
		for _, typ := range []int{0, 1, 2, 3, 4, 127, 128, 255} {
			mk := fmt.Sprintf("%s-t%d", tag, typ)
			var topic []byte
			if typ == 1 || typ == 2 {
				topic = netTopic(typ)
			}
			_, _ = rc.c.Write(encodeFrame(uint8(typ), topic, []byte(mk)))
			want = append(want, mk)
		}
		// through the library's own sender too: legal combinations only
		for _, typ := range []int{0, 1, 2, 3, 255} {
			mk := fmt.Sprintf("%s-lib-t%d", tag, typ)
			var topic []byte
			if typ == 1 || typ == 2 {
				topic = netTopic(typ)
			}
			w.parties[2].remote.Send(uint8(typ), topic, []byte(mk), 1)
			want = append(want, mk)
		}
		for _, mk := range want {
			if !waitMarker(w.parties[1].srv, mk, 15*time.Second) {
				o.Fail = vh.Failf("C17/type-topic", "a message with a legal type/topic combination (%s) did not arrive", mk)
				return o
			}
		}
		for _, m := range w.parties[1].srv.snapshot() {
			if bytes.HasPrefix(m.Data, []byte(tag)) {
				var typ int
				if i := bytes.LastIndex(m.Data, []byte("-t")); i >= 0 {
					fmt.Sscanf(string(m.Data[i+2:]), "%d", &typ)
				}
				hasTopic := typ == 1 || typ == 2
				if int(m.Type) != typ || (hasTopic && !bytes.Equal(m.Topic, netTopic(typ))) || (!hasTopic && len(m.Topic) != 0) {
					o.Fail = vh.Failf("C17/type-topic", "message %q arrived with type %d and a topic of %d bytes", m.Data, m.Type, len(m.Topic))
					return o
				}
			}
		}
		// exactly the limit is accepted (header only announces it; body streamed)
		if vh.Thorough() || vh.EnvStr("VERIF_C17_BIG") != "" {
			big := make([]byte, limit)
			mk := fmt.Sprintf("%s-limit", tag)
			copy(big, mk)
			_, _ = rc.c.Write(encodeFrame(2, netTopic(2), big))
			if !waitMarker(w.parties[1].srv, mk, 60*time.Second) {
				o.Fail = vh.Failf("C17/limit", "a frame of exactly the size limit (%d bytes) was not delivered", limit)
				return o
			}
			o.Classes = append(o.Classes, "frame-of-exactly-the-limit")
		}
		// one byte more is refused: no message, and nothing more from that connection
		over := make([]byte, 5+32)
		over[0] = 2
		binary.LittleEndian.PutUint32(over[1:], uint32(limit+1))
		copy(over[5:], netTopic(2))
		_, _ = rc.c.Write(over)
		after := fmt.Sprintf("%s-after-oversize", tag)
		_, _ = rc.c.Write(append(make([]byte, 64), encodeFrame(2, netTopic(2), []byte(after))...))
		time.Sleep(300 * time.Millisecond)
		for _, m := range w.parties[1].srv.snapshot() {
			if bytes.Contains(m.Data, []byte(after)) || (bytes.HasPrefix(m.Data, make([]byte, 8)) && len(m.Data) > limit) {
				o.Fail = vh.Failf("C17/limit", "after a frame announcing %d bytes (limit+1) the connection kept delivering messages", limit+1)
				return o
			}
		}
		o.Fail = c17Healthy(w, "oversize-sender", []int{0, 1, 2})
	case "garbling-peer":
		tag := fmt.Sprintf("garble-%d", time.Now().UnixNano())
		garbles := [][]byte{
			{2},              // truncated header
			{2, 10, 0, 0, 0}, // header, then nothing
			append([]byte{2, 10, 0, 0, 0}, netTopic(3)[:10]...),             // truncated topic
			append(append([]byte{2, 10, 0, 0, 0}, netTopic(3)...), 1, 2, 3), // truncated body
			encodeFrame(0, netTopic(3), []byte(tag+"-type0-with-topic")),    // type without topic sent with one: misframed
			encodeFrame(2, nil, []byte(tag+"-type2-without-topic-xxxxxxxxxxxxxxxxxxxxxxxxxxxxxxxxxxxx")),
			{0xFF, 0xFF, 0xFF, 0xFF, 0x7F}, // absurd length
			// announced lengths around the limit (20 MiB) and around the sign bit of a 32-bit length
			{2, 0x01, 0x00, 0x40, 0x01}, // limit + 1
			{2, 0xFF, 0xFF, 0xFF, 0x7F}, // 2^31 - 1
			{2, 0x00, 0x00, 0x00, 0x80}, // 2^31
			{2, 0xFF, 0xFF, 0xFF, 0xFF}, // 2^32 - 1
			{0, 0x00, 0x00, 0x00, 0x80}, // 2^31, a type without topic
			{1, 0x01, 0x00, 0x00, 0xC0},
		}
		for i, g := range garbles {
			rc, err := rawValidConn(w, 3, 1)
			if err != nil {
				o.Discard = "dial-failed"
				return o
			}
			pre := fmt.Sprintf("%s-pre-%d", tag, i)
			_, _ = rc.c.Write(encodeFrame(2, netTopic(3), []byte(pre)))
			_, _ = rc.c.Write(g)
			if i%2 == 0 {
				rc.close()
			} else {
				defer rc.close()
			}
			if !waitMarker(w.parties[1].srv, pre, 15*time.Second) {
				o.Fail = vh.Failf("C17/garbling", "a valid frame sent before a broken one (%d) did not arrive", i)
				return o
			}
		}
		time.Sleep(300 * time.Millisecond)
		o.Fail = c17Healthy(w, "garbling", []int{0, 1, 2})
	case "concurrent-first-senders":
		// several goroutines whose FIRST send to a destination coincides, on a fresh sender object every round (the world's
		// long-lived connections are warm: their first send happened long ago). Exactly once, unmodified, per-goroutine order.
		rounds := 1200
		if vh.Thorough() {
			rounds = 6000 // every round leaves a connection open (the library cannot close one): stay below the descriptor limit
		}
		const senders, per = 4, 20
		for r := 0; r < rounds; r++ {
			dst := 1 + r%3
			fresh := w.remoteFor(w.parties[0], w.parties[dst].srv.Addr, dst)
			tag := fmt.Sprintf("cfs-%d-%d", time.Now().UnixNano(), r)
			var ready, wg sync.WaitGroup
			var start int32 // spin barrier: the goroutines leave it within nanoseconds of each other
			for g := 0; g < senders; g++ {
				g := g
				ready.Add(1)
				wg.Add(1)
				go func() {
					defer wg.Done()
					ready.Done()
					for atomic.LoadInt32(&start) == 0 {
					}
					for i := 0; i < per; i++ {
						fresh.Send(2, netTopic(7), []byte(fmt.Sprintf("%s/%d/%03d", tag, g, i)), uint16(dst))
					}
				}()
			}
			ready.Wait()
			atomic.StoreInt32(&start, 1)
			wg.Wait()
			srv := w.parties[dst].srv
			mine := func(ms []tssnet.InMsg) []string {
				var out []string
				for _, m := range ms {
					if len(m.Data) > len(tag) && string(m.Data[:len(tag)]) == tag {
						out = append(out, string(m.Data))
					}
				}
				return out
			}
			ok := srv.waitFor(func(ms []tssnet.InMsg) bool { return len(mine(ms)) >= senders*per }, 10*time.Second)
			got := mine(srv.snapshot())
			seen := map[string]int{}
			last := map[string]string{}
			for _, m := range got {
				seen[m]++
				var g, i int
				if _, err := fmt.Sscanf(m[len(tag):], "/%d/%d", &g, &i); err != nil || g < 0 || g >= senders || i < 0 || i >= per {
					o.Fail = vh.Failf("C17/concurrent-first-senders", "round %d: party %d received a message that was never sent (garbled): %q", r, dst, m)
					return o
				}
				k := fmt.Sprint(g)
				if m <= last[k] {
					o.Fail = vh.Failf("C17/concurrent-first-senders", "round %d: messages of sender goroutine %d arrived out of order or twice at party %d (%q after %q)", r, g, dst, m, last[k])
					return o
				}
				last[k] = m
			}
			if !ok || len(seen) != senders*per {
				o.Fail = vh.Failf("C17/concurrent-first-senders", "round %d: %d goroutines made their first sends to party %d through a fresh sender at the same moment (%d messages each); %d distinct messages of %d arrived", r, senders, dst, per, len(seen), senders*per)
				return o
			}
		}
	case "late-peer":
		// a destination that is not reachable yet when messages for it are accepted: everything that Send accepted must
		// arrive, once and in order, when the peer comes up (several dial attempts fail in between)
		l, err := gonet.Listen("tcp", "127.0.0.1:0")
		if err != nil {
			o.Discard = "listen-failed"
			return o
		}
		addr := l.Addr().String()
		l.Close()
		late := w.remoteFor(w.parties[0], addr, 1)
		tag := fmt.Sprintf("late-%d", time.Now().UnixNano())
		var want []string
		for i := 0; i < 6; i++ {
			mk := fmt.Sprintf("%s-%d", tag, i)
			want = append(want, mk)
			late.Send(2, netTopic(6), []byte(mk), 1)
		}
		time.Sleep(2500 * time.Millisecond)
		var srv *netServer
		func() {
			defer func() { _ = recover() }()
			srv = newNetServerAt(w.ca, w.p2id, addr)
		}()
		if srv == nil {
			o.Discard = "port-taken-meanwhile"
			return o
		}
		defer srv.stop()
		ok := srv.waitFor(func(ms []tssnet.InMsg) bool { return len(ms) >= len(want) }, 20*time.Second)
		time.Sleep(300 * time.Millisecond)
		var got []string
		for _, m := range srv.snapshot() {
			got = append(got, string(m.Data))
		}
		if !ok || fmt.Sprint(got) != fmt.Sprint(want) {
			o.Fail = vh.Failf("C17/late-peer", "6 messages were accepted for a peer that came up 2.5 s later; it received %d of them: %v (expected %v, once each, in order)", len(got), got, want)
			return o
		}
		o.Fail = c17Healthy(w, "late-peer", []int{0, 1, 2, 3})
	case "silent-tcp-peer":
		// peers that open a TCP connection to party 1 and never start the TLS handshake; connections made AFTERWARDS must still be served
		var silent []gonet.Conn
		for i := 0; i < 3; i++ {
			cn, err := gonet.DialTimeout("tcp", w.parties[1].srv.Addr, 3*time.Second)
			if err == nil {
				silent = append(silent, cn)
			}
		}
		defer func() {
			for _, cn := range silent {
				cn.Close()
			}
		}()
		time.Sleep(100 * time.Millisecond)
		tag := fmt.Sprintf("after-silent-%d", time.Now().UnixNano())
		rc, err := rawValidConn(w, 0, 1)
		if err == nil {
			defer rc.close()
			_, _ = rc.c.Write(encodeFrame(2, netTopic(4), []byte(tag+"-raw")))
		}
		fresh := w.remoteFor(w.parties[2], w.parties[1].srv.Addr, 1)
		fresh.Send(2, netTopic(4), []byte(tag+"-lib"), 1)
		for _, mk := range []string{tag + "-raw", tag + "-lib"} {
			if !waitMarker(w.parties[1].srv, mk, 10*time.Second) {
				o.Fail = vh.Failf("C17/isolation/silent-tcp-peer", "while %d peers hold a TCP connection without starting the TLS handshake, a new connection's message (%s) did not arrive at that party within 10s", len(silent), mk)
				return o
			}
		}
	case "burst-order":
		// far more outstanding messages for one destination than its queue holds, from one goroutine and from four
		tag := fmt.Sprintf("burst-%d", time.Now().UnixNano())
		fresh := w.remoteFor(w.parties[0], w.parties[3].srv.Addr, 3)
		const n = 6000
		var wg sync.WaitGroup
		for g := 0; g < 4; g++ {
			g := g
			wg.Add(1)
			go func() {
				defer wg.Done()
				for i := 0; i < n/4*(1+3*boolInt(g == 0))/1; i++ {
					_ = i
				}
				cnt := n / 4
				if g == 0 {
					cnt = n
				}
				for i := 0; i < cnt; i++ {
					fresh.Send(2, c17TopicFor(900000+g, 0), []byte(fmt.Sprintf("%s|g%d|%06d", tag, g, i)), 3)
				}
			}()
		}
		wg.Wait()
		want := map[int]int{0: n, 1: n / 4, 2: n / 4, 3: n / 4}
		ok := w.parties[3].srv.waitFor(func(got []tssnet.InMsg) bool {
			c := 0
			for _, m := range got {
				if bytes.HasPrefix(m.Data, []byte(tag)) {
					c++
				}
			}
			return c >= n+3*(n/4)
		}, 60*time.Second)
		next := map[int]int{}
		for _, m := range w.parties[3].srv.snapshot() {
			if !bytes.HasPrefix(m.Data, []byte(tag)) {
				continue
			}
			var g, i int
			fmt.Sscanf(string(m.Data[len(tag):]), "|g%d|%d", &g, &i)
			if i != next[g] {
				o.Fail = vh.Failf("C17/reordered", "burst of goroutine %d: position %d carries sequence number %d (more messages outstanding than the destination queue holds)", g, next[g], i)
				return o
			}
			next[g]++
		}
		for g, c := range want {
			if next[g] != c || !ok {
				o.Fail = vh.Failf("C17/lost", "burst of goroutine %d: %d of %d messages arrived within 60s", g, next[g], c)
				return o
			}
		}
	case "lib-oversize-then-legal":
		// the library's sender is handed a message of limit+1 bytes (the receiver refuses that frame), then legal messages:
		// "every message accepted for sending with a legal type/topic combination is received ... for payload sizes from empty up
		// to the size limit" - the legal ones that follow must arrive
		// (a connection that is dropped without being closed is closed by the garbage collector's finalizer sooner or later,
		// which would let the sender recover by luck: no collection while this scenario runs)
		defer debug.SetGCPercent(debug.SetGCPercent(-1))
		fresh := w.remoteFor(w.parties[3], w.parties[1].srv.Addr, 1)
		tag := fmt.Sprintf("after-lib-oversize-%d", time.Now().UnixNano())
		fresh.Send(2, netTopic(6), []byte(tag+"-before"), 1)
		if !waitMarker(w.parties[1].srv, tag+"-before", 15*time.Second) {
			o.Fail = vh.Failf("C17/lost", "a message over a fresh connection did not arrive")
			return o
		}
		fresh.Send(2, netTopic(6), make([]byte, limit+1), 1)
		for i := 0; i < 3; i++ {
			fresh.Send(2, netTopic(6), []byte(fmt.Sprintf("%s-%d", tag, i)), 1)
		}
		for i := 0; i < 3; i++ {
			if !waitMarker(w.parties[1].srv, fmt.Sprintf("%s-%d", tag, i), 40*time.Second) {
				o.Fail = vh.Failf("C17/lost-after-refused-frame", "party 3 sent party 1 a message of %d bytes (one more than the limit; refused by the receiver) and then 3 legal messages: legal message %d has not arrived after 40s - the refused frame cut the sender off for good", limit+1, i)
				return o
			}
		}
	case "down-peer-in-broadcast":
		// ONE Send call addresses a peer that is down together with live peers, with more frames than the down peer's queue
		// holds (so that the call runs into the enqueue timeout, three times): the live peers still receive every frame, in order
		l, _ := gonet.Listen("tcp", "127.0.0.1:0")
		down := l.Addr().String()
		l.Close()
		sender := w.parties[0]
		remote := tssnet.SocketRemoteParties{}
		for k, v := range w.remoteFor(sender, down, 9) {
			remote[k] = v
		}
		for _, q := range w.parties[1:] {
			for k, v := range w.remoteFor(sender, q.srv.Addr, q.id) {
				remote[k] = v
			}
		}
		tag := fmt.Sprintf("dpb-%d-", time.Now().UnixNano())
		const total = 1003 // the queue of a destination holds 1000
		orders := [][]uint16{{9, 1, 2, 3}, {1, 9, 2, 3}, {9, 3, 2, 1}}
		for i := 0; i < total; i++ {
			remote.Send(2, netTopic(98), []byte(fmt.Sprintf("%s%05d", tag, i)), orders[i%len(orders)]...)
		}
		for _, q := range w.parties[1:] {
			want := total
			ok := q.srv.waitFor(func(got []tssnet.InMsg) bool {
				k := 0
				for _, m := range got {
					if bytes.HasPrefix(m.Data, []byte(tag)) {
						k++
					}
				}
				return k >= want
			}, 20*time.Second)
			var seqs []string
			q.srv.mu.Lock()
			for _, m := range q.srv.got {
				if bytes.HasPrefix(m.Data, []byte(tag)) {
					seqs = append(seqs, string(m.Data[len(tag):]))
				}
			}
			q.srv.mu.Unlock()
			if !ok {
				missing := ""
				have := map[string]bool{}
				for _, x := range seqs {
					have[x] = true
				}
				for i := 0; i < total && len(missing) < 60; i++ {
					if x := fmt.Sprintf("%05d", i); !have[x] {
						missing += " " + x
					}
				}
				o.Fail = vh.Failf("C17/isolation/down-peer-in-broadcast", "one Send call addressed a down peer and live peers; live party %d received %d of the %d frames (missing:%s): the unreachable destination took frames away from the live ones", q.id, len(seqs), total, missing)
				return o
			}
			for i, x := range seqs {
				if x != fmt.Sprintf("%05d", i) {
					o.Fail = vh.Failf("C17/order/down-peer-in-broadcast", "live party %d received frame %s at position %d of the stream sent beside a down peer", q.id, x, i)
					return o
				}
			}
		}
	case "down-peer", "stalled-peer":
		// a destination that is down (nothing listens) or stalled (accepts TLS, never reads); more frames than its queue holds,
		// then at least 12s so that the 10s enqueue timeout is covered
		var endpoint string
		if c.Name == "down-peer" {
			l, _ := gonet.Listen("tcp", "127.0.0.1:0")
			endpoint = l.Addr().String()
			l.Close()
		} else {
			srvCert, _ := w.ca.NewServerCertKeyPair("127.0.0.1")
			cert, _ := tls.X509KeyPair(srvCert.Cert, srvCert.Key)
			l, err := tls.Listen("tcp", "127.0.0.1:0", &tls.Config{Certificates: []tls.Certificate{cert}, MinVersion: tls.VersionTLS13})
			if err != nil {
				o.Discard = "listen-failed"
				return o
			}
			endpoint = l.Addr().String()
			go func() {
				for {
					cn, err := l.Accept()
					if err != nil {
						return
					}
					go func() { _ = cn.(*tls.Conn).Handshake(); select {} }() // authenticates at TLS level, never reads
				}
			}()
		}
		bad := w.remoteFor(w.parties[0], endpoint, 9)
		done := make(chan struct{})
		go func() {
			defer close(done)
			payload := make([]byte, 64*1024)
			for i := 0; i < 1100; i++ { // the queue of a destination holds 1000
				bad.Send(2, netTopic(9), payload, 9)
			}
		}()
		// meanwhile the remaining peers keep talking
		if f := c17Healthy(w, c.Name, []int{0, 1, 2, 3}); f != nil {
			o.Fail = f
			return o
		}
		select {
		case <-done:
		case <-time.After(14 * time.Second):
		}
		time.Sleep(500 * time.Millisecond)
		o.Fail = c17Healthy(w, c.Name, []int{0, 1, 2, 3})
	}
	return o
}

func TestC17Scenarios(t *testing.T) {
	p := vh.Prop[c17ScenarioCase]{ID: "C17", Test: "TestC17Scenarios", Run: runC17Scenario}
	if vh.EnvStr("VERIF_REPLAY_IN") != "" {
		p.Main(t)
		return
	}
	st := vh.NewStats("C17", "TestC17Scenarios")
	defer st.Flush()
	// the two slow scenarios run in parallel with each other
	var wg sync.WaitGroup
	var mu sync.Mutex
	results := map[string]*vh.Outcome{}
	for _, name := range []string{"down-peer", "stalled-peer", "down-peer-in-broadcast"} {
		name := name
		wg.Add(1)
		go func() {
			defer wg.Done()
			vh.Journal("C17", "TestC17Scenarios", c17ScenarioCase{Name: name})
			r := runC17Scenario(c17ScenarioCase{Name: name})
			mu.Lock()
			results[name] = r
			mu.Unlock()
		}()
	}
	p.Enumerate(t, st, func(yield func(c17ScenarioCase) bool) {
		for _, name := range []string{"types-and-limit", "garbling-peer", "silent-tcp-peer", "burst-order", "late-peer", "concurrent-first-senders", "lib-oversize-then-legal"} {
			if !yield(c17ScenarioCase{Name: name}) {
				return
			}
		}
	})
	wg.Wait()
	p2 := vh.Prop[c17ScenarioCase]{ID: "C17", Test: "TestC17Scenarios", Run: func(c c17ScenarioCase) *vh.Outcome { return results[c.Name] }}
	p2.Enumerate(t, st, func(yield func(c17ScenarioCase) bool) {
		for _, name := range []string{"down-peer", "stalled-peer", "down-peer-in-broadcast"} {
			if !yield(c17ScenarioCase{Name: name}) {
				return
			}
		}
	})
	st.Note("TestC17Scenarios: type/topic combinations and the size limit, 7 kinds of broken frames after a valid handshake, a down peer and a stalled peer with more frames than the destination queue holds, observed for >= 12s, a down peer addressed together with live peers in one Send call (3 enqueue timeouts)")
}
