package checks

// nopLogger satisfies the transport's Logger.
type nopLogger struct{}

func (*nopLogger) DebugEnabled() bool            { return false }
func (*nopLogger) Debugf(string, ...interface{}) {}
func (*nopLogger) Infof(string, ...interface{})  {}
func (*nopLogger) Warnf(string, ...interface{})  {}
func (*nopLogger) Errorf(string, ...interface{}) {}
