package checks

import (
	"crypto"
	"crypto/ecdsa"
	"crypto/ed25519"
	"crypto/elliptic"
	"crypto/rand"
	"crypto/rsa"
	"crypto/sha256"
	"crypto/tls"
	"crypto/x509"
	"crypto/x509/pkix"
	"encoding/binary"
	"encoding/hex"
	"encoding/pem"
	"fmt"
	"math/big"
	gonet "net"
	"sync"
	"time"

	tssnet "github.com/IBM/TSS/net"
	"github.com/IBM/TSS/testutil/tlsgen"
)

// Shared pieces of the transport checks C16/C17: a real TLS server built with
// net.Listen/net.ServiceConnections on loopback, identities from tlsgen, and a
// raw TLS client that speaks the handshake and frame format by hand.

type netIdentity struct {
	Name   string
	Cert   []byte // PEM
	Signer crypto.Signer
	Kind   string // ecdsa | rsa | ed25519
}

func (id *netIdentity) sign(digest []byte) []byte {
	var opts crypto.SignerOpts = crypto.SHA256
	msg := digest
	if id.Kind == "ed25519" {
		opts = crypto.Hash(0)
	}
	s, err := id.Signer.Sign(rand.Reader, msg, opts)
	if err != nil {
		return nil
	}
	return s
}

func newECDSAIdentity(ca tlsgen.CA, name string) *netIdentity {
	kp, err := ca.NewClientCertKeyPair()
	if err != nil {
		panic(err)
	}
	return &netIdentity{Name: name, Cert: kp.Cert, Signer: kp.Signer, Kind: "ecdsa"}
}

// otherKeyIdentity creates a certificate with an RSA or Ed25519 key (self-signed; the transport
// looks identities up by their bytes and never validates their chain).
func otherKeyIdentity(kind, name string) *netIdentity {
	var signer crypto.Signer
	switch kind {
	case "rsa":
		k, err := rsa.GenerateKey(rand.Reader, 2048)
		if err != nil {
			panic(err)
		}
		signer = k
	default:
		_, k, err := ed25519.GenerateKey(rand.Reader)
		if err != nil {
			panic(err)
		}
		signer = k
	}
	sn, _ := rand.Int(rand.Reader, new(big.Int).Lsh(big.NewInt(1), 100))
	tmpl := x509.Certificate{SerialNumber: sn, Subject: pkix.Name{CommonName: name}, NotBefore: time.Now().Add(-time.Hour), NotAfter: time.Now().Add(24 * time.Hour),
		KeyUsage: x509.KeyUsageDigitalSignature, ExtKeyUsage: []x509.ExtKeyUsage{x509.ExtKeyUsageClientAuth}}
	der, err := x509.CreateCertificate(rand.Reader, &tmpl, &tmpl, signer.Public(), signer)
	if err != nil {
		panic(err)
	}
	return &netIdentity{Name: name, Cert: pem.EncodeToMemory(&pem.Block{Type: "CERTIFICATE", Bytes: der}), Signer: signer, Kind: kind}
}

func selfSignedECDSA(name string) *netIdentity {
	k, _ := ecdsa.GenerateKey(elliptic.P256(), rand.Reader)
	sn, _ := rand.Int(rand.Reader, new(big.Int).Lsh(big.NewInt(1), 100))
	tmpl := x509.Certificate{SerialNumber: sn, Subject: pkix.Name{CommonName: name}, NotBefore: time.Now().Add(-time.Hour), NotAfter: time.Now().Add(24 * time.Hour)}
	der, err := x509.CreateCertificate(rand.Reader, &tmpl, &tmpl, &k.PublicKey, k)
	if err != nil {
		panic(err)
	}
	return &netIdentity{Name: name, Cert: pem.EncodeToMemory(&pem.Block{Type: "CERTIFICATE", Bytes: der}), Signer: k, Kind: "ecdsa"}
}

func lookupKey(domain string, cert []byte) string {
	h := sha256.New()
	h.Write([]byte(domain))
	h.Write(cert)
	return hex.EncodeToString(h.Sum(nil))
}

type netServer struct {
	Addr   string
	Pool   *x509.CertPool
	stop   func()
	mu     sync.Mutex
	got    []tssnet.InMsg
	signal chan struct{}
}

func newNetServer(ca tlsgen.CA, p2id map[string]uint16) *netServer {
	return newNetServerAt(ca, p2id, "127.0.0.1:0")
}

func newNetServerAt(ca tlsgen.CA, p2id map[string]uint16, addr string) *netServer {
	srvCert, err := ca.NewServerCertKeyPair("127.0.0.1")
	if err != nil {
		panic(err)
	}
	lsnr := tssnet.Listen(addr, srvCert.Cert, srvCert.Key)
	in, stop := tssnet.ServiceConnections(lsnr, p2id, &nopLogger{})
	pool := x509.NewCertPool()
	pool.AppendCertsFromPEM(ca.CertBytes())
	s := &netServer{Addr: lsnr.Addr().String(), Pool: pool, stop: stop, signal: make(chan struct{}, 1)}
	go func() {
		for m := range in {
			s.mu.Lock()
			s.got = append(s.got, m)
			s.mu.Unlock()
			select {
			case s.signal <- struct{}{}:
			default:
			}
		}
	}()
	return s
}

func (s *netServer) snapshot() []tssnet.InMsg {
	s.mu.Lock()
	defer s.mu.Unlock()
	return append([]tssnet.InMsg(nil), s.got...)
}

// waitFor polls until pred holds on the received messages or the timeout passes.
func (s *netServer) waitFor(pred func([]tssnet.InMsg) bool, timeout time.Duration) bool {
	deadline := time.Now().Add(timeout)
	for {
		if pred(s.snapshot()) {
			return true
		}
		if time.Now().After(deadline) {
			return false
		}
		select {
		case <-s.signal:
		case <-time.After(20 * time.Millisecond):
		}
	}
}

// rawConn is a TLS client connection driven by hand.
type rawConn struct {
	c       *tls.Conn
	binding []byte
}

func dialRaw(addr string, pool *x509.CertPool) (*rawConn, error) {
	d := &gonet.Dialer{Timeout: 5 * time.Second}
	c, err := tls.DialWithDialer(d, "tcp", addr, &tls.Config{RootCAs: pool, MinVersion: tls.VersionTLS13, ServerName: "127.0.0.1"})
	if err != nil {
		return nil, err
	}
	cs := c.ConnectionState()
	b, err := cs.ExportKeyingMaterial("MPC", []byte("MPC"), 32)
	if err != nil {
		c.Close()
		return nil, err
	}
	return &rawConn{c: c, binding: b}, nil
}

func (r *rawConn) close() { r.c.Close() }

// signedHandshake builds the handshake a correct client sends.
func signedHandshake(id *netIdentity, domain string, binding []byte) tssnet.Handshake {
	return signedHandshakeAt(id, domain, binding, time.Now().Unix())
}

// signedHandshakeAt: a correctly signed handshake whose signed timestamp is ts (a node whose clock is off, or a
// handshake that was recorded some time ago).
func signedHandshakeAt(id *netIdentity, domain string, binding []byte, ts int64) tssnet.Handshake {
	h := tssnet.Handshake{Domain: domain, TLSBinding: append([]byte(nil), binding...), Identity: append([]byte(nil), id.Cert...), Timestamp: ts}
	d := sha256.Sum256(h.Bytes())
	if id.Kind == "ed25519" {
		h.Signature = id.sign(h.Bytes())
	} else {
		h.Signature = id.sign(d[:])
	}
	return h
}

func encodeHandshake(h tssnet.Handshake) []byte {
	b := h.Bytes()
	out := make([]byte, 2+len(b))
	binary.LittleEndian.PutUint16(out, uint16(len(b)))
	copy(out[2:], b)
	return out
}

func encodeFrame(msgType uint8, topic, data []byte) []byte {
	out := make([]byte, 5, 5+len(topic)+len(data))
	out[0] = msgType
	binary.LittleEndian.PutUint32(out[1:], uint32(len(data)))
	out = append(out, topic...)
	return append(out, data...)
}

func netTopic(i int) []byte {
	t := sha256.Sum256([]byte(fmt.Sprintf("topic-%d", i)))
	return t[:]
}
