module verif/netown

go 1.23

toolchain go1.23.5

require (
	github.com/IBM/TSS v0.0.0
	pgregory.net/rapid v1.3.0
	verif/vh v0.0.0
)

require (
	github.com/pkg/errors v0.9.1 // indirect
	go.uber.org/atomic v1.7.0 // indirect
	go.uber.org/multierr v1.6.0 // indirect
	go.uber.org/zap v1.22.0 // indirect
)

replace (
	github.com/IBM/TSS => /repo
	verif/vh => ../vh
)
