package checks

import (
	"context"
	"fmt"
	"sort"
	"sync"
	"testing"
	"time"

	math "github.com/IBM/mathlib"
	"github.com/IBM/TSS/mpc/ps"
	"pgregory.net/rapid"

	"verif/vh"
)

// C08 with the dependency versions that mpc/ps itself pins (DESIGN.md §3 C08).
// The core harness links bls and ps together and therefore resolves IBM/mathlib
// to the newer version that mpc/bls asks for; somebody who imports mpc/ps alone
// gets the version in mpc/ps/go.mod. This module requires exactly that one, so
// the completeness chain is also decided for the package as its own module
// builds it - with more parties than the core check can afford (n up to 12).

type nopLogger struct{}

func (nopLogger) Debugf(string, ...interface{}) {}
func (nopLogger) Infof(string, ...interface{})  {}
func (nopLogger) Warnf(string, ...interface{})  {}
func (nopLogger) Errorf(string, ...interface{}) {}
func (nopLogger) DebugEnabled() bool            { return false }

type ownCase struct {
	N, T, L int
	Msgs    [][]byte
	Subset  []int // positions (0-based) of the t signers whose witnesses are aggregated
}

type ownInfo struct {
	KeyGenMs int64
}

func runOwn(c ownCase) *vh.Outcome {
	o := &vh.Outcome{NonTrivial: c.N >= 6, Key: fmt.Sprintf("%+v", c)}
	o.Classes = append(o.Classes, fmt.Sprintf("n=%d", c.N))
	info := &ownInfo{}
	o.Info = info
	ids := make([]uint16, c.N)
	for i := range ids {
		ids[i] = uint16(i + 1)
	}
	mk := func() []*ps.TPS {
		ps_ := make([]*ps.TPS, c.N)
		for i := range ps_ {
			ps_[i] = &ps.TPS{Curve: math.Curves[1], Party: ids[i], Logger: nopLogger{}, MessageLength: c.L}
		}
		for i, p := range ps_ {
			from := ids[i]
			p.Init(ids, c.T, func(msg []byte, bcast bool, to uint16) {
				for j, q := range ps_ {
					if ids[j] == from {
						continue
					}
					if bcast || ids[j] == to {
						q.OnMsg(msg, from, bcast)
					}
				}
			})
		}
		return ps_
	}
	parties := mk()
	ctx, cancel := context.WithTimeout(context.Background(), 2*time.Minute)
	defer cancel()
	shares := make([][]byte, c.N)
	errs := make([]error, c.N)
	panics := make([]string, c.N)
	var wg sync.WaitGroup
	t0 := time.Now()
	for i, p := range parties {
		i, p := i, p
		wg.Add(1)
		go func() {
			defer wg.Done()
			defer func() {
				if r := recover(); r != nil {
					panics[i] = fmt.Sprint(r)
				}
			}()
			shares[i], errs[i] = p.KeyGen(ctx)
		}()
	}
	wg.Wait()
	info.KeyGenMs = time.Since(t0).Milliseconds()
	for i := range parties {
		if panics[i] != "" {
			o.Fail = vh.Failf("C08/own-pins/keygen-panic", "fault-free PS DKG (n=%d t=%d L=%d, dependency versions as pinned by mpc/ps/go.mod): KeyGen of party %d panicked: %s", c.N, c.T, c.L, ids[i], panics[i])
			return o
		}
		if errs[i] != nil {
			o.Fail = vh.Failf("C08/own-pins/keygen", "fault-free PS DKG (n=%d t=%d L=%d): KeyGen of party %d failed: %v", c.N, c.T, c.L, ids[i], errs[i])
			return o
		}
	}
	// reload, identical public material
	signers := mk()
	var tpk []byte
	for i, s := range signers {
		if err := s.SetShareData(shares[i]); err != nil {
			o.Fail = vh.Failf("C08/own-pins/reload", "party %d cannot load its KeyGen output: %v", ids[i], err)
			return o
		}
		pk, err := s.ThresholdPK()
		if err != nil {
			o.Fail = vh.Failf("C08/own-pins/reload", "party %d ThresholdPK: %v", ids[i], err)
			return o
		}
		if tpk == nil {
			tpk = pk
		} else if string(tpk) != string(pk) {
			o.Fail = vh.Failf("C08/own-pins/public-material-differs", "parties %d and %d report different public material (n=%d t=%d)", ids[0], ids[i], c.N, c.T)
			return o
		}
	}
	var prover ps.Prover
	prover.Logger = nopLogger{}
	if err := prover.Init(math.Curves[1], c.L, tpk, ids); err != nil {
		o.Fail = vh.Failf("C08/own-pins/prover", "Prover.Init: %v", err)
		return o
	}
	req, secret := prover.Blind(c.Msgs)
	var subIDs []uint16
	var ws []ps.SignatureWitness
	sub := append([]int(nil), c.Subset...)
	sort.Ints(sub)
	for _, pos := range sub {
		sig, err := signers[pos].Sign(context.Background(), req.Bytes())
		if err != nil {
			o.Fail = vh.Failf("C08/own-pins/sign", "party %d refused a genuine request: %v", ids[pos], err)
			return o
		}
		w, err := prover.UnBlind(ids[pos], sig, &secret)
		if err != nil {
			o.Fail = vh.Failf("C08/own-pins/unblind", "partial signature of party %d does not unblind: %v", ids[pos], err)
			return o
		}
		subIDs = append(subIDs, ids[pos])
		ws = append(ws, w)
	}
	pok := prover.ProveKnowledgeOfSignature(&secret, subIDs, ws)
	var v ps.Verifier
	if err := v.Init(math.Curves[1], c.L, tpk); err != nil {
		o.Fail = vh.Failf("C08/own-pins/verifier", "Verifier.Init: %v", err)
		return o
	}
	if err := v.Verify(pok.Bytes()); err != nil {
		o.Fail = vh.Failf("C08/own-pins/proof-rejected", "proof from the witnesses of signers %v (n=%d t=%d L=%d) does not verify: %v", subIDs, c.N, c.T, c.L, err)
	}
	return o
}

func TestC08OwnPins(t *testing.T) {
	maxN := 9
	if vh.Thorough() {
		maxN = 12
	}
	vh.Prop[ownCase]{ID: "C08", Test: "TestC08OwnPins", Run: runOwn, Gen: func(t *rapid.T) ownCase {
		var c ownCase
		c.N = rapid.IntRange(2, maxN).Draw(t, "n")
		c.T = rapid.IntRange(2, min(c.N, 4)).Draw(t, "t")
		c.L = rapid.IntRange(1, 2).Draw(t, "l")
		for i := 0; i < c.L; i++ {
			c.Msgs = append(c.Msgs, rapid.SliceOfN(rapid.Byte(), 0, 40).Draw(t, "msg"))
		}
		perm := rapid.Permutation(seqInts(c.N)).Draw(t, "perm")
		c.Subset = perm[:c.T]
		return c
	}, Sample: func(c ownCase, o *vh.Outcome) interface{} {
		return map[string]interface{}{"n": c.N, "t": c.T, "l": c.L, "subset": c.Subset, "info": o.Info}
	}}.Main(t)
}

func seqInts(n int) []int {
	s := make([]int, n)
	for i := range s {
		s[i] = i
	}
	return s
}
