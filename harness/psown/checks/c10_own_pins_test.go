package checks

import (
	"context"
	"fmt"
	"sync"
	"testing"

	math "github.com/IBM/mathlib"
	"github.com/IBM/TSS/mpc/ps"
	"pgregory.net/rapid"

	"verif/vh"
)

// C10 target T6 for mpc/ps built with its own pinned dependency versions: byte-level
// mutations of valid objects into TPS.Sign, Verifier.Init / Verify and Prover.UnBlind,
// and of valid DKG messages into ClassifyMsg / OnMsg. Nothing may panic. (Curve-point and
// scalar parsing is done by IBM/mathlib, whose behaviour on invalid encodings differs
// between the version mpc/ps pins and the one the core harness links.)

type ownFixture struct {
	ids      []uint16
	shares   [][]byte
	tpk      []byte
	request  []byte
	partial  []byte
	proof    []byte
	secret   *ps.UnblindingSecret
	dkgMsgs  [][]byte // every DKG message seen on the wire (share, commitment, revealed key)
	dkgBcast []bool
}

var (
	ownOnce sync.Once
	ownFx   *ownFixture
	ownErr  error
)

func wire(ids []uint16, t, l int, tap func(msg []byte, bcast bool)) []*ps.TPS {
	ps_ := make([]*ps.TPS, len(ids))
	for i := range ps_ {
		ps_[i] = &ps.TPS{Curve: math.Curves[1], Party: ids[i], Logger: nopLogger{}, MessageLength: l}
	}
	for i, p := range ps_ {
		from := ids[i]
		p.Init(ids, t, func(msg []byte, bcast bool, to uint16) {
			if tap != nil {
				tap(append([]byte(nil), msg...), bcast)
			}
			for j, q := range ps_ {
				if ids[j] != from && (bcast || ids[j] == to) {
					q.OnMsg(msg, from, bcast)
				}
			}
		})
	}
	return ps_
}

func getOwnFixture() (*ownFixture, error) {
	ownOnce.Do(func() {
		f := &ownFixture{ids: []uint16{1, 2, 3}}
		var mu sync.Mutex
		parties := wire(f.ids, 2, 2, func(msg []byte, bcast bool) {
			mu.Lock()
			f.dkgMsgs = append(f.dkgMsgs, msg)
			f.dkgBcast = append(f.dkgBcast, bcast)
			mu.Unlock()
		})
		f.shares = make([][]byte, 3)
		errs := make([]error, 3)
		var wg sync.WaitGroup
		for i, p := range parties {
			i, p := i, p
			wg.Add(1)
			go func() { defer wg.Done(); f.shares[i], errs[i] = p.KeyGen(context.Background()) }()
		}
		wg.Wait()
		for _, e := range errs {
			if e != nil {
				ownErr = e
				return
			}
		}
		signers := wire(f.ids, 2, 2, nil)
		for i, s := range signers {
			if ownErr = s.SetShareData(f.shares[i]); ownErr != nil {
				return
			}
		}
		f.tpk, ownErr = signers[0].ThresholdPK()
		if ownErr != nil {
			return
		}
		var prover ps.Prover
		prover.Logger = nopLogger{}
		if ownErr = prover.Init(math.Curves[1], 2, f.tpk, f.ids); ownErr != nil {
			return
		}
		req, secret := prover.Blind([][]byte{[]byte("a"), []byte("b")})
		f.request, f.secret = req.Bytes(), &secret
		var ws []ps.SignatureWitness
		for i := 0; i < 2; i++ {
			sig, err := signers[i].Sign(context.Background(), f.request)
			if err != nil {
				ownErr = err
				return
			}
			if i == 0 {
				f.partial = sig
			}
			w, err := prover.UnBlind(f.ids[i], sig, &secret)
			if err != nil {
				ownErr = err
				return
			}
			ws = append(ws, w)
		}
		pok := prover.ProveKnowledgeOfSignature(&secret, f.ids[:2], ws)
		f.proof = pok.Bytes()
		ownFx = f
	})
	return ownFx, ownErr
}

type ownMut struct {
	Op   int
	A, B int
	Raw  []byte
}

func (m ownMut) apply(base, other []byte) []byte {
	b := append([]byte(nil), base...)
	n := len(b)
	switch m.Op {
	case 1:
		return b[:m.A%(n+1)]
	case 2:
		return append(b, m.Raw...)
	case 3:
		if n > 0 {
			b[m.A%n] ^= 1 << uint(m.B%8)
		}
	case 4:
		if n > 0 {
			b[m.A%n] = []byte{0, 1, 0x7f, 0x80, 0xff}[m.B%5]
		}
	case 5:
		cut := m.A % (n + 1)
		oc := 0
		if len(other) > 0 {
			oc = m.B % (len(other) + 1)
		}
		return append(b[:cut:cut], other[oc:]...)
	case 6:
		return append([]byte(nil), m.Raw...)
	case 7: // overwrite a 32-byte window with 0xFF (a scalar / coordinate beyond every modulus)
		for i := m.A % (n + 1); i < n && i < m.A%(n+1)+32; i++ {
			b[i] = 0xFF
		}
	case 8: // zero a 32..96-byte window (the point at infinity / a zero scalar, if the window hits a field)
		for i := m.A % (n + 1); i < n && i < m.A%(n+1)+32*(1+m.B%3); i++ {
			b[i] = 0
		}
	}
	return b
}

type ownC10Case struct {
	Target int
	Mut    ownMut
}

var ownTargets = []string{"ps.TPS.Sign", "ps.Verifier.Init", "ps.Verifier.Verify", "ps.Prover.UnBlind", "ps.Prover.Init", "ps.TPS.SetShareData", "ps.TPS.ClassifyMsg+OnMsg"}

func runOwnC10(c ownC10Case) *vh.Outcome {
	o := &vh.Outcome{}
	f, err := getOwnFixture()
	if err != nil {
		o.Fail = vh.Failf("C10/own-pins/fixture", "cannot build a valid base: %v", err)
		return o
	}
	target := ownTargets[c.Target%len(ownTargets)]
	var input []byte
	accepted := false
	func() {
		defer func() {
			if r := recover(); r != nil {
				o.Fail = vh.Failf("C10/own-pins/panic/"+target, "%s panicked on a mutated valid object (%d bytes, dependency versions as pinned by mpc/ps/go.mod): %v", target, len(input), r)
			}
		}()
		switch target {
		case "ps.TPS.Sign":
			input = c.Mut.apply(f.request, f.proof)
			s := wire(f.ids, 2, 2, nil)[0]
			_ = s.SetShareData(f.shares[0])
			_, err := s.Sign(context.Background(), input)
			accepted = err == nil
		case "ps.Verifier.Init":
			input = c.Mut.apply(f.tpk, f.proof)
			var v ps.Verifier
			if err := v.Init(math.Curves[1], 2, input); err == nil {
				accepted = true
				_ = v.Verify(f.proof)
			}
		case "ps.Verifier.Verify":
			input = c.Mut.apply(f.proof, f.request)
			var v ps.Verifier
			_ = v.Init(math.Curves[1], 2, f.tpk)
			accepted = v.Verify(input) == nil
		case "ps.Prover.UnBlind":
			input = c.Mut.apply(f.partial, f.proof)
			var p ps.Prover
			p.Logger = nopLogger{}
			_ = p.Init(math.Curves[1], 2, f.tpk, f.ids)
			_, err := p.UnBlind(1, input, f.secret)
			accepted = err == nil
		case "ps.Prover.Init":
			input = c.Mut.apply(f.tpk, f.request)
			var p ps.Prover
			p.Logger = nopLogger{}
			accepted = p.Init(math.Curves[1], 2, input, f.ids) == nil
		case "ps.TPS.SetShareData":
			input = c.Mut.apply(f.shares[0], f.tpk)
			s := wire(f.ids, 2, 2, nil)[0]
			if err := s.SetShareData(input); err == nil {
				accepted = true
				_, _ = s.ThresholdPK()
				_, _ = s.Sign(context.Background(), f.request)
			}
		default:
			k := c.Mut.B % len(f.dkgMsgs)
			input = c.Mut.apply(f.dkgMsgs[k], f.dkgMsgs[(k+1)%len(f.dkgMsgs)])
			fresh := wire(f.ids, 2, 2, nil)[0]
			if _, _, err := fresh.ClassifyMsg(input); err == nil {
				accepted = true
			}
			fresh.OnMsg(input, 2, f.dkgBcast[k])
			fresh.OnMsg(input, 3, !f.dkgBcast[k])
		}
	}()
	o.Key = fmt.Sprintf("%s/%x", target, input)
	o.NonTrivial = len(input) > 8
	o.Classes = append(o.Classes, "target="+target)
	if accepted {
		o.Classes = append(o.Classes, "accepted")
	}
	o.Info = map[string]interface{}{"target": target, "len": len(input), "accepted": accepted}
	return o
}

func TestC10OwnPins(t *testing.T) {
	vh.Prop[ownC10Case]{ID: "C10", Test: "TestC10OwnPins", Run: runOwnC10, Gen: func(t *rapid.T) ownC10Case {
		return ownC10Case{Target: rapid.IntRange(0, len(ownTargets)-1).Draw(t, "target"), Mut: ownMut{
			Op:  rapid.SampledFrom([]int{1, 1, 2, 3, 3, 3, 4, 4, 5, 6, 7, 7, 8, 8}).Draw(t, "op"),
			A:   rapid.IntRange(0, 2000).Draw(t, "a"),
			B:   rapid.IntRange(0, 255).Draw(t, "b"),
			Raw: rapid.SliceOfN(rapid.Byte(), 0, 40).Draw(t, "raw"),
		}}
	}, Sample: func(c ownC10Case, o *vh.Outcome) interface{} { return o.Info }}.Main(t)
}
