module verif/psown

go 1.23

toolchain go1.23.5

require (
	github.com/IBM/TSS/mpc/ps v0.0.0
	github.com/IBM/mathlib v0.0.2
	pgregory.net/rapid v1.3.0
	verif/vh v0.0.0
)

require (
	github.com/consensys/bavard v0.1.13 // indirect
	github.com/consensys/gnark-crypto v0.9.1 // indirect
	github.com/hyperledger/fabric-amcl v0.0.0-20210603140002-2670f91851c8 // indirect
	github.com/mmcloughlin/addchain v0.4.0 // indirect
	github.com/pkg/errors v0.8.1 // indirect
	golang.org/x/sys v0.2.0 // indirect
	rsc.io/tmplfunc v0.0.3 // indirect
)

replace (
	github.com/IBM/TSS/mpc/ps => /repo/mpc/ps
	verif/vh => ../vh
)
