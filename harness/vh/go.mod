module verif/vh

go 1.21

require pgregory.net/rapid v1.3.0
