// Package vh is the small amount of plumbing shared by every check in /verif:
// case counting and classification for the evidence files, the crash journal,
// recording of the (shrunk) failing case as a replay file, replay mode, the
// committed regression corpus and the known-findings table.
//
// Conventions (all driven by the python driver /verif/check through the
// environment; every variable is optional so that `go test` also works by hand):
//
//	VERIF_OUT        directory for this run's machine-readable output
//	VERIF_SHARD      shard label (part of the output file names), default "0"
//	VERIF_TIER       quick | thorough
//	VERIF_REPLAY_IN  path of a replay file: run exactly that case, no generation
//	VERIF_KNOWN      path of known_findings.json
//	VERIF_PROBE      "1": run only the known-finding probes of the property
package vh

import (
	"bytes"
	"encoding/binary"
	"encoding/json"
	"fmt"
	"hash/fnv"
	"os"
	"path/filepath"
	"regexp"
	"runtime"
	"sort"
	"strings"
	"sync"
	"sync/atomic"
	"testing"
	"time"

	"pgregory.net/rapid"
)

// Failure is what an oracle returns when the property is violated on a case.
type Failure struct {
	// Signature is the stable identity of the violated oracle clause:
	// "<property>/<clause>/<site or class>". Known findings are matched on it.
	Signature string `json:"signature"`
	Message   string `json:"message"`
}

func Failf(sig, format string, a ...interface{}) *Failure {
	return &Failure{Signature: sig, Message: fmt.Sprintf(format, a...)}
}

// Outcome is the result of executing one case.
type Outcome struct {
	Fail *Failure
	// NonTrivial according to the property's stated rule.
	NonTrivial bool
	// Key identifies the case for the distinct count (canonical description).
	Key string
	// Classes this case falls into (generator distribution).
	Classes []string
	// Trace / observations worth keeping in a replay file or a sample.
	Info interface{}
	// Discard: the case turned out not to belong to the property's domain
	// (counted separately, never a pass and never a failure).
	Discard string
}

type replayFile struct {
	Property  string          `json:"property"`
	Test      string          `json:"test"`
	Signature string          `json:"signature,omitempty"`
	Message   string          `json:"message,omitempty"`
	Case      json.RawMessage `json:"case"`
	Info      interface{}     `json:"info,omitempty"`
	Crash     string          `json:"crash,omitempty"`
}

type statsFile struct {
	Property    string         `json:"property"`
	Test        string         `json:"test"`
	Shard       string         `json:"shard"`
	Evaluations int            `json:"evaluations"`
	NonTrivial  int            `json:"nontrivial"`
	Distinct    int            `json:"distinct_nontrivial"`
	Discarded   map[string]int `json:"discarded,omitempty"`
	Classes     map[string]int `json:"classes"`
	KnownHits   map[string]int `json:"known_hits,omitempty"`
	Samples     []interface{}  `json:"samples"`
	Regress     int            `json:"regress_replayed"`
	Exhaustive  bool           `json:"exhaustive,omitempty"`
	Notes       []string       `json:"notes,omitempty"`
	HashFile    string         `json:"hash_file"`
	Failures    int            `json:"failures"`
}

// Stats accumulates what a test explored.
type Stats struct {
	mu         sync.Mutex
	prop, test string
	f          statsFile
	hashes     map[uint64]struct{}
	maxSamples int
}

func NewStats(prop, test string) *Stats {
	return &Stats{prop: prop, test: test, hashes: map[uint64]struct{}{}, maxSamples: 4,
		f: statsFile{Property: prop, Test: test, Shard: Shard(), Classes: map[string]int{}, Discarded: map[string]int{}, KnownHits: map[string]int{}}}
}

func Hash64(s string) uint64 {
	h := fnv.New64a()
	h.Write([]byte(s))
	return h.Sum64()
}

// Record counts one executed case. sample is kept for the first few
// non-trivial cases.
func (s *Stats) Record(o *Outcome, sample interface{}) {
	s.mu.Lock()
	defer s.mu.Unlock()
	if o.Discard != "" {
		s.f.Discarded[o.Discard]++
		return
	}
	s.f.Evaluations++
	for _, c := range o.Classes {
		s.f.Classes[c]++
	}
	if o.NonTrivial {
		s.f.NonTrivial++
		h := Hash64(o.Key)
		if _, ok := s.hashes[h]; !ok {
			s.hashes[h] = struct{}{}
			if len(s.f.Samples) < s.maxSamples && sample != nil {
				s.f.Samples = append(s.f.Samples, sample)
			}
		}
	}
}

func (s *Stats) Class(c string, n int) {
	s.mu.Lock()
	s.f.Classes[c] += n
	s.mu.Unlock()
}

func (s *Stats) Note(format string, a ...interface{}) {
	s.mu.Lock()
	s.f.Notes = append(s.f.Notes, fmt.Sprintf(format, a...))
	s.mu.Unlock()
}

func (s *Stats) SetExhaustive(b bool) { s.mu.Lock(); s.f.Exhaustive = b; s.mu.Unlock() }

func (s *Stats) KnownHit(sig string) {
	s.mu.Lock()
	s.f.KnownHits[sig]++
	s.mu.Unlock()
}

func (s *Stats) failure() { s.mu.Lock(); s.f.Failures++; s.mu.Unlock() }

// Flush writes stats-<test>-<shard>.json and the hash set next to it.
func (s *Stats) Flush() {
	dir := os.Getenv("VERIF_OUT")
	if dir == "" {
		return
	}
	s.mu.Lock()
	defer s.mu.Unlock()
	s.f.Distinct = len(s.hashes)
	base := fmt.Sprintf("%s-%s", s.test, Shard())
	hf := filepath.Join(dir, "hashes-"+base+".bin")
	keys := make([]uint64, 0, len(s.hashes))
	for h := range s.hashes {
		keys = append(keys, h)
	}
	sort.Slice(keys, func(i, j int) bool { return keys[i] < keys[j] })
	buf := make([]byte, 8*len(keys))
	for i, k := range keys {
		binary.LittleEndian.PutUint64(buf[8*i:], k)
	}
	_ = os.WriteFile(hf, buf, 0o644)
	s.f.HashFile = hf
	if s.f.Samples == nil {
		s.f.Samples = []interface{}{}
	}
	b, _ := json.MarshalIndent(&s.f, "", " ")
	writeAtomic(filepath.Join(dir, "stats-"+base+".json"), b)
}

func writeAtomic(path string, b []byte) {
	tmp := path + ".tmp"
	if err := os.WriteFile(tmp, b, 0o644); err == nil {
		_ = os.Rename(tmp, path)
	}
}

func Shard() string {
	if s := os.Getenv("VERIF_SHARD"); s != "" {
		return s
	}
	return "0"
}

func Tier() string {
	if s := os.Getenv("VERIF_TIER"); s != "" {
		return s
	}
	return "quick"
}

func Thorough() bool { return Tier() == "thorough" }

// EnvInt reads an integer knob.
func EnvInt(name string, def int) int {
	if s := os.Getenv(name); s != "" {
		var v int
		if _, err := fmt.Sscanf(s, "%d", &v); err == nil {
			return v
		}
	}
	return def
}

// Journal writes the case about to be executed, so that a crash of the whole
// process (panic in a library goroutine) can still be attributed to it.
func Journal(prop, test string, c interface{}) {
	dir := os.Getenv("VERIF_OUT")
	if dir == "" {
		return
	}
	raw, _ := json.Marshal(c)
	b, _ := json.Marshal(&replayFile{Property: prop, Test: test, Case: raw})
	journalMu.Lock()
	defer journalMu.Unlock()
	path := filepath.Join(dir, fmt.Sprintf("journal-%s-%s.json", test, Shard()))
	j := journals[path]
	if j == nil {
		f, err := os.OpenFile(path, os.O_CREATE|os.O_WRONLY|os.O_TRUNC, 0o644)
		if err != nil {
			return
		}
		j = &journalFile{f: f}
		journals[path] = j
	}
	// One write at offset 0 into a file that is kept open: a process that dies afterwards leaves the complete
	// case behind (no create/rename per case - two million of those made the thorough tier I/O bound). A shorter
	// case is padded with blanks up to the longest one so far, which JSON readers skip.
	if len(b) < j.max {
		b = append(b, bytes.Repeat([]byte{' '}, j.max-len(b))...)
	} else {
		j.max = len(b)
	}
	_, _ = j.f.WriteAt(b, 0)
}

type journalFile struct {
	f   *os.File
	max int
}

var (
	journalMu sync.Mutex
	journals  = map[string]*journalFile{}
)

func recordFail(prop, test string, c interface{}, o *Outcome) { recordFailAs(prop, test, test, c, o) }

// recordFailAs writes the failing case under the name of the job that found it (fileTest) while the recorded
// test - the function that replays it - may be another one (a fuzz target records the plain test of its property).
func recordFailAs(prop, fileTest, test string, c interface{}, o *Outcome) {
	dir := os.Getenv("VERIF_OUT")
	if dir == "" {
		return
	}
	raw, _ := json.Marshal(c)
	b, _ := json.MarshalIndent(&replayFile{Property: prop, Test: test, Case: raw, Signature: o.Fail.Signature, Message: o.Fail.Message, Info: o.Info}, "", " ")
	writeAtomic(filepath.Join(dir, fmt.Sprintf("fail-%s-%s.json", fileTest, Shard())), b)
}

// ---------------------------------------------------------------------------
// known findings

type KnownFinding struct {
	Property  string `json:"property"`
	ID        string `json:"id"`
	Signature string `json:"signature"`
	What      string `json:"what"`
	Status    string `json:"status"` // open | fixed
	Commit    string `json:"commit,omitempty"`
}

var (
	knownOnce sync.Once
	knownOpen map[string]KnownFinding
)

func loadKnown() {
	knownOpen = map[string]KnownFinding{}
	p := os.Getenv("VERIF_KNOWN")
	if p == "" {
		return
	}
	b, err := os.ReadFile(p)
	if err != nil {
		return
	}
	var f struct {
		Findings []KnownFinding `json:"findings"`
	}
	if json.Unmarshal(b, &f) != nil {
		return
	}
	for _, k := range f.Findings {
		if k.Status == "open" {
			knownOpen[k.Signature] = k
		}
	}
}

// KnownOpen reports whether sig is listed as an open known finding.
func KnownOpen(sig string) bool {
	knownOnce.Do(loadKnown)
	_, ok := knownOpen[sig]
	return ok
}

// ---------------------------------------------------------------------------
// wedge watchdog
//
// A goroutine of the code under test that waits for a mutex is not "durably
// blocked" for testing/synctest, so a deadlock on a leaked lock wedges the
// whole case instead of being reported. The watchdog looks at the case that
// is running: when it has been running for VERIF_CASE_WATCHDOG seconds of
// real time (default 120; ordinary cases take milliseconds) it dumps all
// goroutines. If one of them has been waiting for a sync.Mutex / RWMutex for
// at least a minute inside the repository's code, that is a deadlock of the
// code under test: the case is written as the failing case and the process
// exits 1. Otherwise the process exits 3 (wedged harness = inconclusive).

var (
	wdOnce      sync.Once
	wdCaseStart atomic.Int64 // unix nanos, 0 = no case running
	wdCurrent   atomic.Value // func() (prop, test string, c interface{})
)

var mutexWaitRe = regexp.MustCompile(`(?m)^goroutine \d+ \[(sync\.(RW)?Mutex\.(R)?Lock|semacquire)[^\]]*, (\d+) minutes`)

func startWatchdog() {
	wdOnce.Do(func() {
		limit := time.Duration(EnvInt("VERIF_CASE_WATCHDOG", 120)) * time.Second
		go func() {
			for {
				time.Sleep(5 * time.Second)
				st := wdCaseStart.Load()
				if st == 0 || time.Since(time.Unix(0, st)) < limit {
					continue
				}
				buf := make([]byte, 8<<20)
				buf = buf[:runtime.Stack(buf, true)]
				dump := string(buf)
				if alt := os.Getenv("VERIF_REPO"); alt != "" && alt != "/repo" {
					dump = strings.ReplaceAll(dump, strings.TrimSuffix(alt, "/")+"/", "/repo/") // development runs against a scratch tree
				}
				site := ""
				for _, g := range strings.Split(dump, "\n\n") {
					if !mutexWaitRe.MatchString(g) {
						continue
					}
					for _, line := range strings.Split(g, "\n") {
						line = strings.TrimSpace(line)
						if strings.HasPrefix(line, "/repo/") {
							site = strings.TrimPrefix(strings.Fields(line)[0], "/repo/")
							if i := strings.LastIndex(site, ":"); i > 0 {
								site = site[:i]
							}
							break
						}
					}
					if site != "" {
						break
					}
				}
				get, _ := wdCurrent.Load().(func() (string, string, interface{}))
				if site != "" && get != nil {
					prop, test, c := get()
					o := &Outcome{Fail: Failf(prop+"/deadlock/mutex/"+site, "the case has been running for %v of real time and a goroutine of the code under test has been waiting for a mutex for over a minute in %s: deadlock (lock never released)", time.Since(time.Unix(0, st)).Round(time.Second), site),
						Info: map[string]interface{}{"goroutines": firstLines(dump, 120)}}
					recordFail(prop, test, c, o)
					fmt.Printf("--- FAIL: %s: %s: %s\n", test, o.Fail.Signature, o.Fail.Message)
					os.Exit(1)
				}
				fmt.Printf("WEDGED: case running for %v, no mutex wait inside the repository found; goroutine dump follows\n%s\n", time.Since(time.Unix(0, st)), firstLines(dump, 200))
				os.Exit(3)
			}
		}()
	})
}

func firstLines(s string, n int) string {
	l := strings.Split(s, "\n")
	if len(l) > n {
		l = l[:n]
	}
	return strings.Join(l, "\n")
}

// Watch marks the start of a case for the watchdog; call the returned func when it ends.
func Watch(prop, test string, c interface{}) func() {
	startWatchdog()
	wdCurrent.Store(func() (string, string, interface{}) { return prop, test, c })
	wdCaseStart.Store(time.Now().UnixNano())
	return func() { wdCaseStart.Store(0) }
}

// ---------------------------------------------------------------------------
// generic property runner

// Prop ties a generator and an executor together. C must round-trip through
// encoding/json (it is the replay format).
type Prop[C any] struct {
	ID   string // property id, e.g. "C01"
	Test string // test function name (unique per binary)
	Gen  func(t *rapid.T) C
	Run  func(c C) *Outcome
	// Sample turns a case (+ outcome) into what is shown in evidence; default: the case itself.
	Sample func(c C, o *Outcome) interface{}
}

// Main is the body of the test function.
func (p Prop[C]) Main(t *testing.T) {
	st := NewStats(p.ID, p.Test)
	defer st.Flush()
	sample := func(c C, o *Outcome) interface{} {
		if p.Sample != nil {
			return p.Sample(c, o)
		}
		return c
	}

	if in := os.Getenv("VERIF_REPLAY_IN"); in != "" {
		c, rf, err := readReplay[C](in)
		if err != nil {
			t.Fatalf("cannot read replay file %s: %v", in, err)
		}
		if rf.Test != "" && rf.Test != p.Test {
			t.Skipf("replay file is for %s", rf.Test)
		}
		done := Watch(p.ID, p.Test, c)
		o := p.Run(c)
		done()
		st.Record(o, sample(c, o))
		if o.Fail != nil {
			recordFail(p.ID, p.Test, c, o)
			st.failure()
			t.Fatalf("REPLAY-FAIL %s: %s", o.Fail.Signature, o.Fail.Message)
		}
		t.Logf("replay passed")
		return
	}

	// committed regression corpus first
	files, _ := filepath.Glob(filepath.Join("testdata", "regress", p.Test, "*.json"))
	sort.Strings(files)
	if os.Getenv("VERIF_NO_REGRESS") == "1" { // sensitivity experiments: generator only
		files = nil
	}
	for _, f := range files {
		c, _, err := readReplay[C](f)
		if err != nil {
			t.Fatalf("bad regression file %s: %v", f, err)
		}
		Journal(p.ID, p.Test, c)
		done := Watch(p.ID, p.Test, c)
		o := p.Run(c)
		done()
		st.mu.Lock()
		st.f.Regress++
		st.mu.Unlock()
		if o.Fail != nil {
			if KnownOpen(o.Fail.Signature) {
				st.KnownHit(o.Fail.Signature)
				continue
			}
			recordFail(p.ID, p.Test, c, o)
			st.failure()
			st.Flush()
			t.Fatalf("regression case %s fails: %s: %s", f, o.Fail.Signature, o.Fail.Message)
		}
	}
	if os.Getenv("VERIF_PROBE") == "1" {
		return
	}

	rapid.Check(t, func(rt *rapid.T) {
		c := p.Gen(rt)
		Journal(p.ID, p.Test, c)
		done := Watch(p.ID, p.Test, c)
		o := p.Run(c)
		done()
		st.Record(o, sample(c, o))
		if o.Fail != nil {
			if KnownOpen(o.Fail.Signature) {
				st.KnownHit(o.Fail.Signature)
				return
			}
			recordFail(p.ID, p.Test, c, o)
			st.failure()
			st.Flush()
			rt.Fatalf("%s: %s", o.Fail.Signature, o.Fail.Message)
		}
	})
}

// Fuzz runs the same generator and oracle under Go's coverage-guided fuzzer: the fuzzer's bytes are the generator's
// random stream (rapid.MakeFuzz), so what it mutates are the generator's decisions. A failing case is recorded as JSON
// exactly like in Main (and replays through the plain test p.Test); the crasher file that the Go fuzzer writes is not
// needed. before is called with the *testing.T of every execution (the checks keep it in a package variable).
func (p Prop[C]) Fuzz(f *testing.F, name string, before func(*testing.T)) {
	f.Add([]byte{})
	f.Add([]byte("0123456789abcdef0123456789abcdef0123456789abcdef0123456789abcdef"))
	target := rapid.MakeFuzz(func(rt *rapid.T) {
		c := p.Gen(rt)
		Journal(p.ID, name, c)
		done := Watch(p.ID, name, c)
		o := p.Run(c)
		done()
		if o.Fail != nil {
			if KnownOpen(o.Fail.Signature) {
				return
			}
			recordFailAs(p.ID, name, p.Test, c, o)
			rt.Fatalf("%s: %s", o.Fail.Signature, o.Fail.Message)
		}
	})
	f.Fuzz(func(t *testing.T, data []byte) {
		if before != nil {
			before(t)
		}
		target(t, data)
	})
}

func readReplay[C any](path string) (C, *replayFile, error) {
	var c C
	var rf replayFile
	b, err := os.ReadFile(path)
	if err != nil {
		return c, nil, err
	}
	if err := json.Unmarshal(b, &rf); err != nil {
		return c, nil, err
	}
	if err := json.Unmarshal(rf.Case, &c); err != nil {
		return c, nil, err
	}
	return c, &rf, nil
}

// Enumerate runs p.Run over an explicit list of cases (exhaustive
// enumeration), with the same recording as Main. Returns the first failure.
func (p Prop[C]) Enumerate(t *testing.T, st *Stats, cases func(yield func(C) bool)) {
	cases(func(c C) bool {
		Journal(p.ID, p.Test, c)
		done := Watch(p.ID, p.Test, c)
		o := p.Run(c)
		done()
		var s interface{} = c
		if p.Sample != nil {
			s = p.Sample(c, o)
		}
		st.Record(o, s)
		if o.Fail != nil {
			if KnownOpen(o.Fail.Signature) {
				st.KnownHit(o.Fail.Signature)
				return true
			}
			recordFail(p.ID, p.Test, c, o)
			st.failure()
			st.Flush()
			t.Errorf("%s: %s", o.Fail.Signature, o.Fail.Message)
			return false
		}
		return true
	})
}

// EnvStr reads a string knob.
func EnvStr(name string) string { return os.Getenv(name) }
