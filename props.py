# Per-property job table for /verif/check. One entry per claimed property:
# which harness module/package holds its tests, which test functions make up
# the check (jobs), how many generated cases each tier runs, and the texts
# that go into the evidence file.

COMMON_ASSUME = [
    "Go 1.26.8 toolchain, runtime and testing/synctest semantics (virtual time, durable blocking)",
    "pgregory.net/rapid v1.3.0 generators/shrinking",
    "harness network keeps each sender->receiver link FIFO and never forges Source",
    "key material comes from crypto/rand and is not a function of VERIF_SEED; schedules, configurations and fault choices are",
]

PROPS = {
    "C01": {
        "module": "core", "pkg": "./checks", "level": "exploration",
        "jobs": [
            {"test": "TestC01", "quick": 150, "thorough": 60000, "shards_thorough": 14},
        ],
        "rule": "rapid draws (n in 2..5 [thorough 6], t in 2..n, loud|silent, schedule = choice vector + link bias table, digests of length 0..64, "
                "signer set of size t..n); real LoudScheme/SilentScheme + bls.TBLS run DKG then an orchestrated signing session on a simulated "
                "FIFO-per-link network under virtual time. Oracle: all KeyGen return nil; public parameters byte-identical; every subset of size >= t "
                "(all of them, exhaustively) signs validly from the stored shares; each partial verifies under the party's published key; every Sign "
                "returns the same signature and it verifies for the requested digest. Non-trivial = the delivery trace is not the global FIFO trace "
                "(at least one frame overtakes an earlier-sent one). Distinct = hash of the whole case.",
        "assumptions": COMMON_ASSUME + ["orchestrated signing uses the harness's interactive BLS signer built from bls.TBLS.Sign and bls.Verifier.AggregateSignatures"],
    },
    "C02": {
        "module": "core", "pkg": "./checks", "level": "exploration",
        "jobs": [
            {"test": "TestC02R", "quick": 30000, "thorough": 2000000, "shards_thorough": 14},
            {"test": "FuzzC02R", "fuzz": "FuzzC02R", "tiers": ["thorough"], "fuzztime": 40},
            {"test": "TestC02S", "quick": 2500, "thorough": 300000, "shards_thorough": 14},
            {"test": "FuzzC02S", "fuzz": "FuzzC02S", "tiers": ["thorough"], "fuzztime": 40},
            {"test": "TestC06", "quick": 600, "thorough": 60000, "shards_thorough": 14},
        ],
        "rule": "Level S: the real orchestrator (LoudScheme/SilentScheme, KeyGen and Sign) with the recorder backend, N in 3..5 participants of which 1..N-2 are "
                "Byzantine puppets (honest for the synchronisation phases; their own MPC frames optionally muted per victim), 0..2 configured "
                "outsiders and an unknown node; the adversary injects wire frames under its authenticated Source: conflicting payloads of a round "
                "(incl. pairs whose sha256 digests share their first 4 bytes), acks about itself / others / honest / the receiver / outsiders with "
                "digests of payloads in play, never sent, random, short, long, replays of logged frames, point-to-point payloads; outsiders do the "
                "same. Level R: rbc.Receiver instances (N in 3..5, 1..N-2 Byzantine members, >= 2 honest) wired by the harness; rapid draws honest sends, an "
                "adversary script (different payloads to different parties, acks about itself / other Byzantine / honest / the receiver / outsiders with "
                "digests of payloads in play, never-sent or random, replays of any logged frame, point-to-point) and a weighted delivery schedule. "
                "Oracle: over all hand-offs of all honest parties, at most one broadcast payload per (sender, round). Non-trivial = the adversary "
                "equivocated, forged or replayed at least once and at least one hand-off happened. Distinct = hash of the whole case.",
        "assumptions": COMMON_ASSUME,
    },
    "C03": {
        "module": "core", "pkg": "./checks", "level": "exploration",
        "jobs": [
            {"test": "TestC03R", "quick": 30000, "thorough": 2000000, "shards_thorough": 14},
            {"test": "FuzzC03R", "fuzz": "FuzzC03R", "tiers": ["thorough"], "fuzztime": 40},
            {"test": "TestC03S", "quick": 2500, "thorough": 300000, "shards_thorough": 14},
            {"test": "FuzzC03S", "fuzz": "FuzzC03S", "tiers": ["thorough"], "fuzztime": 40},
            {"test": "TestC06", "quick": 600, "thorough": 60000, "shards_thorough": 14},
        ],
        "rule": "Same generated runs as C02 (Level R and Level S). Oracle: every broadcast hand-off is non-nil, attributed to a participant, equals a payload that "
                "the attributed sender transmitted directly to this party before the hand-off, and happens at most once per (party, sender, round); "
                "every point-to-point hand-off equals the next received frame of that link; the broadcast flag handed to the backend equals the payload's "
                "class. Non-trivial as for C02. Level S uses the identity membership; the attribution clause under arbitrary (non-monotone, replicated) "
                "node-to-party maps is decided by TestC06's clause 'every OnMsg.from equals the party of the node that emitted the payload', which "
                "therefore also runs here.",
        "assumptions": COMMON_ASSUME,
    },
    "C04": {
        "module": "core", "pkg": "./checks", "level": "exploration",
        "jobs": [
            {"test": "TestC04R", "quick": 30000, "thorough": 2000000, "shards_thorough": 14},
            {"test": "FuzzC04R", "fuzz": "FuzzC04R", "tiers": ["thorough"], "fuzztime": 40},
            {"test": "TestC04S", "quick": 2500, "thorough": 300000, "shards_thorough": 14},
            {"test": "FuzzC04S", "fuzz": "FuzzC04S", "tiers": ["thorough"], "fuzztime": 40},
            {"test": "TestC13Stack", "quick": 300, "thorough": 20000, "shards_thorough": 14},
        ],
        "rule": "Level R, all honest, N in 2..5, up to 9 sends (broadcasts in rounds 1..3 by several senders, point-to-point), weighted delivery "
                "schedule run to quiescence. Oracle: every broadcast handed exactly once to every other party, every point-to-point message exactly "
                "once to its addressee, nothing else. Non-trivial = at least one ack was delivered before the payload it vouches for and at least two "
                "senders broadcast. Distinct = hash of the whole case.",
        "assumptions": COMMON_ASSUME,
    },
    "C11": {
        "module": "core", "pkg": "./checks", "level": "fault_enumeration",
        "jobs": [
            {"test": "TestC11Enum", "quick": 1, "thorough": 1, "shards_thorough": 14, "timeout_quick": 1500},
            {"test": "TestC11Rand", "quick": 150, "thorough": 40000, "shards_thorough": 14},
            {"test": "TestC11Backend", "quick": 1, "thorough": 1, "shards_thorough": 14},
            {"test": "TestC11BackendRand", "quick": 400, "thorough": 60000, "shards_thorough": 14},
            {"test": "TestC11Local", "quick": 1500, "thorough": 200000, "shards_thorough": 14},
            {"test": "TestC11Adapters", "module": "binance", "pkg": "./checks", "quick": 1, "thorough": 1, "timeout_thorough": 1800},
        ],
        "rule": "Full stack (LoudScheme/SilentScheme; BLS, PS and a scripted backend; KeyGen and Sign) under virtual time. For each configuration a "
                "fault-free reference run numbers every frame sent during the operation; then exhaustively: every peer P and every k (P cut off after "
                "its k-th outgoing frame, k=0 = never starts), every single withheld frame, cancellation of a caller's context at 13 points, and (sign) "
                "unusable stored share data with and without a deadline. TestC11Rand adds random configurations, schedules and faults. Oracle: every "
                "call returns (error or success) by deadline+grace of virtual time, no panic during the run or a 3-minute virtual linger, successes agree "
                "on public material. TestC11Adapters drives the tss-lib adapters directly: unusable share data, a 50 ms key-generation deadline, "
                "a digest tss-lib refuses with a context without deadline, an absent peer during Sign / KeyGen - each call must return an error, "
                "neither panic nor block. Cancellation INSIDE a callback (as built after seeded changes C11-m3/m4): the caller's context ends inside its "
                "own j-th Send call (every j, with and without muting everything that would reach the caller afterwards) or inside the backend factory / "
                "Init / SetShareData / entry of KeyGen or Sign of its protocol instance - the only way to put the end of a context between two steps "
                "that no quiescent point separates; afterwards one more call on that node must come back by its own deadline. TestC11Backend(+Rand) "
                "drives bls.TBLS / ps.TPS KeyGen directly over an ideal broadcast with the same (peer,k) and (caller,j,mute) enumerations: the "
                "orchestrator returns when its context ends whatever the backend does, so a backend that sleeps for ever is only visible there. "
                "Non-trivial = the fault actually removed a frame / hit a running call. Distinct = configuration + fault.",
        "exhaustive_claim": False,
        "exhaustive_parts": "per listed configuration and reference schedule the (peer,k) and single-withheld-frame spaces are enumerated completely; configurations and schedules are a finite sample",
        "assumptions": COMMON_ASSUME + ["a vanished peer is modelled as a node whose outgoing frames are dropped after the k-th"],
    },
    "C05": {
        "module": "core", "pkg": "./checks", "level": "exploration",
        "jobs": [
            {"test": "TestC05B", "quick": 500, "thorough": 150000, "shards_thorough": 14},
            {"test": "FuzzC05B", "fuzz": "FuzzC05B", "tiers": ["thorough"], "fuzztime": 40},
            {"test": "TestC05S", "quick": 600, "thorough": 200000, "shards_thorough": 14},
        ],
        "rule": "Level B: real bls.TBLS / ps.TPS backends driven through Init/OnMsg/KeyGen over the simulated network with an ideal broadcast; one "
                "participant is a puppet whose outgoing traffic is rewritten by a strategy drawn from a catalogue of 19 deviations (off-polynomial / "
                "random share to a victim set, reveal != commitment, consistent off-polynomial key, malformed / structurally altered share, reveal, "
                "commit, duplicates with different content, withheld share/commit/reveal, reveal before commit, shares last, copy-cat, byte mutation) "
                "x victim set x (n in 3..4 [thorough 5], t in 2..n incl. t=n) x schedule; BLS and PS (L in 1..2). Oracle: every honest party returns by "
                "the virtual deadline without panic; those that succeed report identical public material, their published key matches their share and "
                "every t-subset of them signs validly under the reported key (PS: blind-sign-unblind-prove-verify); no honest reveal is emitted before "
                "commitments of all n-1 others were handed to that party. Non-trivial = a deviating message was handed to an honest backend or a message "
                "was withheld. Distinct = hash of the whole case. Level S (TestC05S, 'different values shown to different parties'): real LoudScheme / "
                "SilentScheme with the real synchroniser, broadcast layer and BLS / PS DKG (n in 3..4, t mostly = n); the misbehaving participant runs two "
                "honest DKG instances behind its one identifier and shows instance B (everything / only commitment and revealed key / only the revealed "
                "key) to a generated victim set and instance A to the others, under a generated schedule; same consistency oracle over the honest "
                "parties' KeyGen results (consistent or error, never a split). Non-trivial there = the honest parties were really shown different instances.",
        "assumptions": COMMON_ASSUME + ["Level B uses an ideal broadcast; Level S goes through the real broadcast layer"],
    },
    "C10": {
        "module": "core", "pkg": "./checks", "level": "exploration",
        "jobs": [
            {"test": "TestC10Hostile", "quick": 1, "thorough": 1, "shards_thorough": 14},
            {"test": "TestC10Loud", "quick": 800, "thorough": 100000, "shards_thorough": 14},
            {"test": "FuzzC10Loud", "fuzz": "FuzzC10Loud", "tiers": ["thorough"], "fuzztime": 60},
            {"test": "TestC10Silent", "quick": 800, "thorough": 100000, "shards_thorough": 14},
            {"test": "FuzzC10Silent", "fuzz": "FuzzC10Silent", "tiers": ["thorough"], "fuzztime": 60},
            {"test": "TestC10Crypto", "quick": 6000, "thorough": 1000000, "shards_thorough": 14},
            {"test": "FuzzC10Crypto", "fuzz": "FuzzC10Crypto", "tiers": ["thorough"], "fuzztime": 60},
            {"test": "TestC05B", "quick": 300, "thorough": 6000, "shards_thorough": 14},
            {"test": "TestC03R", "quick": 10000, "thorough": 200000, "shards_thorough": 14},
            {"test": "TestC10Adapters", "module": "binance", "pkg": "./checks", "quick": 50, "thorough": 1600, "shards_thorough": 8},
            {"test": "TestC10OwnPins", "module": "psown", "pkg": "./checks", "quick": 3000, "thorough": 200000, "shards_thorough": 8},
            {"test": "TestC10Net", "module": "netown", "pkg": "./checks", "quick": 60, "thorough": 4000, "shards_thorough": 4},
        ],
        "rule": "Structure-aware hostile input. T1/T2: frames captured from a fault-free run of the configuration under test (loud / silent; BLS, PS, "
                "scripted backend; KeyGen, Sign) are truncated, extended, bit-flipped, spliced, replaced by hostile constants sitting on the decoders' "
                "length checks, given other types / topics (live, other live, unknown, empty, short, long, nil) / sources (participant, configured "
                "outsider, unknown; never the receiver itself) and injected in a generated session state (idle, after k deliveries, finished). Oracle: "
                "HandleMessage returns without panic and without blocking; every call returns by the deadline; input that must be ignored (unconfigured "
                "source, MPC traffic of a non-participant, foreign topic, idle/finished state) leaves the running honest session successful; a fresh "
                "session afterwards succeeds. TestC10Hostile sweeps all hostile constants deterministically. T4 (rbc.Receiver) = TestC03R's Byzantine "
                "scripts incl. short digests; T5 (DKG handlers) = TestC05B's malformed / structural strategies; T6: TPS.Sign, ps/bls Verifier.Init/Verify, "
                "AggregateSignatures, Prover.UnBlind with byte-level and ASN.1-structure-level mutations of valid objects. T8 (TestC10Adapters): frames of "
                "a fault-free run of the tss-lib adapters (EdDSA live, ECDSA from key fixtures; key generation and signing) replayed, byte-mutated or "
                "altered inside a valid protobuf envelope (other type URL, other content, empty / truncated content), under the genuine sender, another "
                "member or a non-member, singly or as bursts of up to 1100 copies, into a party that is initialised but not running, running, or "
                "finished: ClassifyMsg/OnMsg return without panic within 20 s, the running call returns by its deadline, input from non-members "
                "(below the queue capacity) leaves the session successful. TestC10OwnPins: byte-level mutations of valid PS objects and DKG messages into "
                "TPS.Sign / SetShareData / ClassifyMsg / OnMsg, Verifier.Init / Verify, Prover.Init / UnBlind with mpc/ps built against its OWN "
                "pinned IBM/mathlib (point and scalar parsing differs between the pinned versions). Non-trivial = the input passed "
                "the first validation step of its entry point (live topic and minimal length / outer ASN.1 decoder). Distinct = hash of case / input.",
        "assumptions": COMMON_ASSUME + ["explicit panics on local API misuse (rule 2 of DESIGN 2.10) are not inputs from the network and are not generated"],
    },
    "C07": {
        "module": "core", "pkg": "./checks", "level": "exploration",
        "jobs": [
            {"test": "TestC07Honest", "quick": 700, "thorough": 80000, "shards_thorough": 14},
            {"test": "TestC07Byz", "quick": 1100, "thorough": 80000, "shards_thorough": 14},
            {"test": "FuzzC07Byz", "fuzz": "FuzzC07Byz", "tiers": ["thorough"], "fuzztime": 40},
            {"test": "TestC06", "quick": 600, "thorough": 60000, "shards_thorough": 14},
        ],
        "rule": "TestC06 (the orchestrator's two synchronisations in KeyGen and Sign under arbitrary node-id/party-id maps: with exactly the expected "
                "members invoking and every frame delivered, every call completes). disc.Member instances on the simulated network under virtual time: universe of 2..8 configured members with identifiers over the "
                "full 16-bit range (boundary-biased), honest participant subset, expected count (>= 2), 1..3 topics in parallel on one Member, probe "
                "interval, staggered starts, schedule; TestC07Byz adds 1..2 Byzantine members = real Member puppets whose frames are rewritten "
                "(views with added / dropped / permuted / duplicated / arbitrary ids, different lies per destination, type byte rewritten, another "
                "member's tag under the own source, replays, premature responses, truncated/extended frames, drops). Oracle per honest completer: list "
                "strictly ascending, contains itself, has the expected size, only configured members, every honest member in it invoked Synchronize, "
                "every Byzantine member in it delivered a frame with its own tag; agreement with every honest completer that appears in the list; "
                "nil <=> continuation ran exactly once before return, error => never; returns by deadline+grace; with exactly `expected` honest "
                "invokers and no Byzantine member everybody completes. Non-trivial = a lie was applied, an identifier > 255 is present or starts are "
                "staggered. Distinct = hash of the whole case.",
        "assumptions": COMMON_ASSUME + ["expected >= 2 (a synchronisation with oneself is not generated: every caller passes n >= 2 or threshold+1 >= 2)"],
    },
    "C13": {
        "module": "core", "pkg": "./checks", "level": "exploration",
        "jobs": [
            {"test": "TestC13Sync", "quick": 1, "thorough": 1, "shards_thorough": 14},
            {"test": "TestC13Stack", "quick": 500, "thorough": 100000, "shards_thorough": 14},
        ],
        "rule": "(a) exhaustive: synchronisation-only sessions for ALL pairs and ALL triples (thorough: all 4-tuples) of the 17 boundary identifiers "
                "{0,1,2,127,128,255,256,257,0x105,511,512,0x205,0x7FFF,0x8000,0xFF00,0xFFFE,0xFFFF} must complete with the full list; (b) rapid: "
                "full-stack sessions (loud/silent; scripted backend with 1..4 broadcast rounds drawn from 0..127 and optional point-to-point "
                "exchanges, KeyGen and Sign; real BLS and PS DKG) with 2..5 identifiers (boundary-biased) against a differential twin with "
                "identifiers 1..n: same completion verdict, same multiset of backend hand-offs after renaming; BLS/PS saved shares and public "
                "parameters reload on every party, are byte-identical and verify a fresh signature. Non-trivial = at least one identifier > 255. "
                "Distinct = identifier tuple + session kind.",
        "exhaustive_claim": False,
        "exhaustive_parts": "TestC13Sync enumerates the pair/triple (thorough: 4-tuple) space over the boundary set completely; TestC13Stack samples",
        "assumptions": COMMON_ASSUME,
    },
    "C18": {
        "module": "core", "pkg": "./checks", "level": "exploration",
        "jobs": [
            {"test": "TestC18Recon", "quick": 1, "thorough": 1, "shards_thorough": 14},
            {"test": "TestC18Cross", "quick": 1, "thorough": 1, "shards_thorough": 14, "env_thorough": {"VERIF_CASE_WATCHDOG": "3000"}, "timeout_thorough": 7200},
        ],
        "rule": "Public API only. TestC18Recon: fresh random polynomials from the exported SSS.Gen per (backend,n,t,L); the shares are wrapped into the "
                "library's stored-data format; for EVERY subset of size >= t (BLS n<=8, PS n<=5; thorough 10 / 6) in ascending, descending and rotated "
                "order the partial signatures / witnesses are aggregated by the library (Verifier.AggregateSignatures, "
                "Prover.ProveKnowledgeOfSignature) and must verify under g2^p(0) computed independently with mathlib (decides the polynomial identity "
                "up to 2^-240). TestC18Cross: backend-level DKG for every (n,t): keys on one polynomial are accepted (incl. t=n); for t<n every "
                "position j (and for PS every key component X, Y_k) revealed off the polynomial with a consistent commitment must make every honest "
                "party return an error. Non-trivial = subset is not the ascending prefix {1..t} / a deviation was delivered. Distinct = (backend,n,t,"
                "ordered subset) / (backend,n,t,j,component).",
        "exhaustive_claim": True,
        "exhaustive_parts": "all (n,t) up to the stated bounds, all subsets of size >= t in three orders, all positions and components; polynomials are random samples",
        "assumptions": COMMON_ASSUME + ["mathlib group arithmetic for the independent g2^p(0)", "PS generator g2 recomputed with gnark-crypto HashToG2 as the library documents it"],
    },
    "C08": {
        "module": "core", "pkg": "./checks", "level": "exploration",
        "jobs": [
            {"test": "TestC08", "quick": 300, "thorough": 36000, "shards_thorough": 14},
            {"test": "TestC08OwnPins", "module": "psown", "pkg": "./checks", "quick": 40, "thorough": 1500, "shards_thorough": 8},
        ],
        "rule": "rapid draws L in 1..4, a message vector (arbitrary byte strings incl. empty, equal entries, 1 KiB), n in 2..4 (thorough 5), t in 2..n, "
                "a delivery schedule for the backend-level DKG and the order in which signer subsets are handed to the prover (ascending, descending, "
                "rotated). Oracle: every KeyGen succeeds; every party reloads its output and reports byte-identical public material; every party signs "
                "the blinded request; every partial signature unblinds to a witness valid under that signer's published key; for EVERY subset of size "
                ">= t the proof of knowledge verifies under the threshold key. Every case is non-trivial by construction (generated vector, all "
                "subsets); distinct = hash of the whole case. TestC08OwnPins (harness module psown, which requires exactly the IBM/mathlib version of "
                "mpc/ps/go.mod instead of the newer one that linking bls pulls in): the same chain - KeyGen, reload, identical public material, sign, "
                "unblind, prove, verify for a drawn t-subset - over directly wired parties with n in 2..9 (thorough 12); non-trivial there = n >= 6.",
        "assumptions": COMMON_ASSUME + ["party identifiers 1..n (all callers; the prover uses the identifier as evaluation point)"],
    },
    "C09": {
        "module": "core", "pkg": "./checks", "level": "exploration",
        "jobs": [
            {"test": "TestC09", "quick": 1, "thorough": 1, "shards_thorough": 14},
        ],
        "rule": "Metamorphic enumeration over fresh valid bases (BLS (n,t) in {(3,2),(4,3),(3,3)[,(5,3),(5,2),(4,2)]}; PS proofs and requests for "
                "(n,t,L) in {(3,2,2),(2,2,1),(4,3,1)[,(4,3,3),(3,3,1)]}; 4 bases per shape, thorough 40). BLS: other digests, every partial replaced "
                "(other digest, +G, random point, identity, other DKG, every other party's partial), every swap, mis-filing under a non-signer, key of "
                "another DKG, each individual key as threshold key, EVERY subset of size < t, altered signatures. PS proof: each of x_i, y, Gamma, Phi, "
                "h^eps, h'^eps, nu, kappa x {+generator, x2, random, identity/zero, same component of another valid proof under the same key, under "
                "another key}; t-1 witnesses; witnesses filed under rotated signers; other key; the exported proof builder on the identity 'signature' "
                "(no share at all) with a genuine-signature control. PS request: each of cm, u, a_i, b_i, proof x_i, y_i, s, z, d_i, f_i x the same "
                "perturbations -> TPS.Sign must fail. Controls must be accepted, twice, also on the same object / verifier / signer. Non-trivial = the "
                "perturbed object differs from the base and still parses. Distinct = (shape, base, variant).",
        "exhaustive_claim": False,
        "exhaustive_parts": "per base every listed component x perturbation kind is enumerated; bases are random samples",
        "assumptions": COMMON_ASSUME + ["mathlib group arithmetic for building perturbed elements", "aggregating a single signature / witness is answered by an explicit library panic (local misuse) and is not generated"],
    },
    "C06": {
        "module": "core", "pkg": "./checks", "level": "exploration",
        "jobs": [
            {"test": "TestC06", "quick": 1500, "thorough": 600000, "shards_thorough": 14},
            {"test": "FuzzC06", "fuzz": "FuzzC06", "tiers": ["thorough"], "fuzztime": 40},
        ],
        "rule": "Full stack with spy backends: universe of 3..7 nodes with distinct 16-bit node identifiers (boundary-biased), party identifiers with "
                "generated collisions (1..3 replicas per party; identity maps <= 20%), participants = one replica per chosen party (valid) or two "
                "replicas of one party (refusal clause), KeyGen and Sign, loud and silent, schedule. Oracle: (a) Init list == sorted party identifiers "
                "of the participants; (b) every OnMsg source == party identifier of the node that emitted the payload; (c) every point-to-point "
                "emission appears as exactly one MPC frame, addressed to the node that represents the addressed party in this session; (d) with two "
                "selected replicas of one party nobody succeeds and no backend is initialised. Non-trivial = the map is not the identity on the "
                "participants. Distinct = (map, participants, operation, mode).",
        "assumptions": COMMON_ASSUME,
    },
    "C12": {
        "module": "core", "pkg": "./checks", "level": "exploration",
        "jobs": [
            {"test": "TestC12", "quick": 700, "thorough": 200000, "shards_thorough": 14},
            {"test": "FuzzC12", "fuzz": "FuzzC12", "tiers": ["thorough"], "fuzztime": 40},
        ],
        "rule": "Stateful, model-based: rapid draws a list of 2..8 operations on one cluster of 3..4 nodes (+ a configured outsider and an unknown "
                "node), loud or silent: KeyGen by all / all but one, Sign(topic in {t0,t1}) complete / one signer missing / cancelled after k "
                "deliveries, two Signs on different topics concurrently, a second Sign on a topic that is still running, replay of recorded frames of "
                "earlier sessions, frames from the outsider / unknown node; every attempt runs to its (virtual) deadline and the queues are drained. "
                "Model: an attempt in which all participants take part and nobody cancels succeeds - also on a topic whose previous attempt failed, "
                "timed out or was cancelled (retry admitted), and when another topic runs concurrently; a concurrent duplicate on the same topic is "
                "refused at once and leaves the first untouched. Tape oracle: no backend instance is handed a message attributed to a "
                "non-participant, or after its session's API call returned. Non-trivial = the history has a retry after a failed attempt, "
                "overlapping sessions, or late/foreign frames. Distinct = hash of the whole case.",
        "assumptions": COMMON_ASSUME + ["late frames are delivered between attempts, not while a new session on the same topic runs (the wire format has no session identifier)"],
    },
    "C14": {
        "module": "core", "pkg": "./checks", "level": "exploration",
        "jobs": [
            {"test": "TestC14", "quick": 25000, "thorough": 1400000, "shards_thorough": 14},
            {"test": "TestC14DFS", "quick": 30000, "thorough": 200000, "shards_thorough": 5},
            {"test": "TestC15", "quick": 2500, "thorough": 60000, "shards_thorough": 14},
        ],
        "rule": "The real msg.Box under a cooperative scheduler (yield hook, build tag verif): 1..3 receiver threads (one per sender identity, 1..4 "
                "messages each over 1..2 topics) and 1..2 send threads (1..2 Sends each) park at every yield point (outside the box's critical "
                "sections) and at the harness callbacks; exactly one thread runs at a time, chosen by the rapid choice vector. TestC14DFS enumerates "
                "ALL interleavings of the small configurations (1 receiver x 2 messages + 1 Send; 2 receivers x 1 message + 1 Send; thorough: 3 more) "
                "by re-execution DFS. Oracle when all calls have returned, without a further Send: every message received on a topic that was sent "
                "on was handed to the dispatcher exactly once, per (topic, sender) in arrival order, nothing invented. Non-trivial = a receive call "
                "was inside storeOrForward while a Send on the same topic was in flight. Distinct = the interleaving (sequence of (thread, point)). "
                "In a third of the random cases the buffer's topics-in-flight limit equals the number of topics of the busiest sender (exactly at the "
                "documented limit). TestC15 (the model-based check of C15) also runs here: its sequential histories with the epoch clock, collections "
                "and limits decide the same exactly-once clause for messages whose sender is within the limits and whose topic is still alive "
                "(a message that must be accepted is handed over by the next Send on its topic, once).",
        "exhaustive_claim": False,
        "exhaustive_parts": "TestC14DFS is exhaustive per listed configuration up to the stated execution bound, within the generator switch of known finding L18; TestC14 samples",
        "assumptions": COMMON_ASSUME + ["interleavings at yield-point granularity (yield points sit at every lock boundary of msg.Box outside its critical sections)",
                                         "known finding L18 excludes, by generator switch, receive calls inside the check-to-store window during a Send on the same topic; three probe interleavings replay it on every run"],
    },
    "C15": {
        "module": "core", "pkg": "./checks", "level": "exploration",
        "jobs": [
            {"test": "TestC15", "quick": 6000, "thorough": 150000, "shards_thorough": 14},
            {"test": "FuzzC15", "fuzz": "FuzzC15", "tiers": ["thorough"], "fuzztime": 40},
            {"test": "TestC15Conc", "quick": 8, "thorough": 400, "shards_thorough": 8},
        ],
        "rule": "TestC15Conc: real goroutines - per round a fresh topic, 2..8 senders deliver 1..3 messages each while another goroutine starts the topic, "
                "300..3000 rounds, limit 1..3, clock stopped; exact verdict per round: every message handed over exactly once (a leaked per-sender "
                "registration throttles a sender after limit+1 leaks). TestC15: topics of 32 bytes, 2 bytes, mixed lengths and tiny (empty/1 byte). "
                "Stateful against a reference model: msg.Box with MaxInFlightTopicsBySender in 2..4, GCExpire of 2..4 sweeps, hand-fed epoch ticker "
                "and the bubble's virtual wall clock; rapid draws sequences of up to 60 (thorough 400) operations: receive bursts (1..103 messages, "
                "crossing the per-sender limit of 100) of 3 senders on a sliding stream of topics (cumulatively many, few at a time), Send, advance "
                "1..3 epochs, idle 5..12 epochs, pure GC triggers (Send on a fresh topic after a gap). Oracle: no panic; nothing invented or handed "
                "twice; a message that the model says is within the limits (sender has at most limit-1 other topics that are neither started nor "
                "certainly expired, fewer than 99 unhanded messages on that topic) is handed over by the next Send on its topic (or the final flush); "
                "data of a never-started topic that is older than GCExpire and has seen two GC triggers more than GCExpire apart is not handed over "
                "any more. Non-trivial = the sequence crosses a limit, exercises the expiry clause, or reuses a sender after finished/expired "
                "topics. Distinct = hash of the whole sequence.",
        "assumptions": COMMON_ASSUME + ["limits are judged with a tolerance: the model only demands acceptance strictly inside the limits and discarding only after a generous bound (two spaced GC triggers)"],
    },
    "C16": {
        "module": "netown", "pkg": "./checks", "level": "exploration",
        "jobs": [
            {"test": "TestC16Sweep", "quick": 1, "thorough": 1},
            {"test": "TestC16", "quick": 25, "thorough": 4000, "shards_thorough": 8},
        ],
        "rule": "Real TLS 1.3 over loopback against net.Listen/net.ServiceConnections with 4 registered ECDSA identities over 3 domains plus a "
                "registered RSA and Ed25519 identity. A case is a batch of 10..20 raw client connections, each a variant of a valid handshake followed "
                "by one valid frame with a unique marker: 29 variants (domain other-registered / unregistered / altered after signing; binding "
                "bit-flipped, truncated, empty, of another connection; identity of another registered peer with the own signature, unregistered, "
                "other CA, self-signed, malformed PEM, DER garbage, swapped with the binding; timestamp altered; signature bit-flipped, truncated, "
                "empty, by another key, over another handshake; byte-for-byte replay of a handshake recorded for another connection; RSA / Ed25519 "
                "identities; every truncation of the encoding; wrong length prefixes; random bytes; empty), interleaved with valid connections. "
                "TestC16Sweep runs every variant x every peer deterministically. Oracle after an honest barrier round trip plus a settle interval: "
                "the messages received are exactly those sent over valid handshakes, each once, with the From/Domain of the identity that signed; "
                "no marker of an invalid variant ever appears. Non-trivial = the batch has a variant that still decodes and differs from a valid "
                "handshake in one semantic respect. Distinct = hash of the batch. evaluations counts batches (classes count connections).",
        "assumptions": COMMON_ASSUME + ["crypto/tls, crypto/x509 and the TLS exporter are trusted", "real time: slowness can only hide a leak (checked after a barrier), never invent one"],
    },
    "C17": {
        "module": "netown", "pkg": "./checks", "level": "exploration",
        "jobs": [
            {"test": "TestC17Scenarios", "quick": 1, "thorough": 1, "env_thorough": {"VERIF_C17_BIG": "1", "VERIF_CASE_WATCHDOG": "1200"}, "env_quick": {"VERIF_CASE_WATCHDOG": "600"}},
            {"test": "TestC17", "quick": 150, "thorough": 6000, "shards_thorough": 6},
        ],
        "rule": "Real TLS over loopback between 4 parties built with net.Listen / ServiceConnections / NewSocketRemoteParty. TestC17: rapid draws 1..10 "
                "concurrent sender goroutines, each with 1..3 destinations and 1..12 messages whose payload length is drawn from {0,1,2,31,32,33, "
                "16KiB-1..+1, 64KiB-1..+1, 1MiB}; every (goroutine -> receiver) stream must arrive exactly once, in order, byte-identical (type, "
                "topic, payload), attributed to the sender. TestC17Scenarios: every message type (1,2 with a 32-byte topic, others without) through "
                "a raw client and the library's sender; a frame announcing limit+1 bytes yields nothing more from that connection (thorough: a frame "
                "of exactly 20 MiB is delivered); 7 kinds of broken frames after a valid handshake; peers that hold a TCP connection without "
                "starting TLS; bursts of 6000+3x1500 messages to one destination (more than its queue holds) keep per-goroutine order; a down "
                "peer and a stalled peer (accepts TLS, never reads) get 1100 frames of 64 KiB while the process is observed for >= 12 s and the "
                "remaining peers must keep exchanging messages. Non-trivial = >= 2 concurrent streams, a boundary length, or a fault scenario. "
                "Distinct = hash of the case / scenario name.",
        "assumptions": COMMON_ASSUME + ["real time: 'slow' is sampled, not explored; generous arrival deadlines (10..60 s) so that load cannot raise an alarm"],
    },
    "C20": {
        "module": "core", "pkg": "./checks", "level": "exploration",
        "jobs": [
            {"test": "TestC20", "quick": 70, "thorough": 8000, "shards_thorough": 14, "race": True, "timeout_quick": 1200},
            {"test": "TestC20Box", "quick": 120, "thorough": 4000, "shards_thorough": 14, "race": True},
        ],
        "rule": "Built with -race (GORACE=halt_on_error=1), real time, threshold.SyncInterval = 2 ms: real LoudScheme/SilentScheme nodes (n in 3..4; "
                "BLS, PS, scripted backend) on a network with ONE DISPATCHER GOROUTINE PER INCOMING LINK of every node, so HandleMessage runs "
                "concurrently inside one node; rapid draws mode, backend, jitter (Gosched / 0..200 us sleeps from a case-derived PRNG), start "
                "staggering of up to several synchronisation intervals (traffic reaches nodes before their first API call), 0..2 concurrent signing "
                "sessions on different topics after the key generation, duplicated / re-routed copies of participant 1's protocol frames, and a "
                "second key generation under a tight-loop replay of the first one's protocol frames (out-of-phase shares, commitments, reveals, "
                "acks from the very start). Oracle: no race report and no 'concurrent map' fatal error; completion is counted, not judged. "
                "Non-trivial = at least two dispatchers were inside HandleMessage of one node at the same time, or early/duplicate traffic was "
                "injected. Distinct = hash of the case.",
        "assumptions": COMMON_ASSUME + ["the Go race detector's happens-before analysis; a race needs both accesses to occur in the run: interleavings are sampled, not owned",
                                         "a race report whose two accesses both lie outside the repository is a harness race and is reported as inconclusive, never as a violation"],
    },
    "C19": {
        "module": "binance", "pkg": "./checks", "level": "exploration",
        "jobs": [
            {"test": "TestC19EdDSA", "quick": 60, "thorough": 1500, "shards_thorough": 8},
            {"test": "TestC19ECDSA", "quick": 30, "thorough": 400, "shards_thorough": 4, "timeout_thorough": 5400},
            {"test": "TestC19Bind", "quick": 12, "thorough": 300, "shards_thorough": 4},
            {"test": "TestC19BindECDSA", "quick": 10, "thorough": 400, "shards_thorough": 4},
        ],
        "rule": "Live EdDSA key generation and signing for (n,t) in {(2,1),(3,2),(3,1),(4,3),(4,2),(5,3)}; ECDSA signing from committed key fixtures "
                "((2,1),(3,2); captured key-generation frames included) in quick and live key generation in thorough; a direct dispatcher records "
                "every emitted (bytes, routing flag, destination). Digests: 32 random bytes, leading zero byte(s), all-zero, all-0xFF, lengths 1..64. "
                "Oracle: (a) ClassifyMsg(bytes) succeeds and its class equals the library's routing flag for EVERY emitted frame; (b) two "
                "broadcast-class message types of one phase never share a round; (c) every returned signature verifies for the digest that was "
                "passed in under ThresholdPK() (crypto/ed25519, crypto/ecdsa); a refusal is allowed. The clause about a message whose embedded "
                "sender differs from the transport sender is vacuous for the pinned tss-lib v2.0.2 (wire bytes carry no sender); what is "
                "checked instead (TestC19Bind, EdDSA key generation with one member absent): a genuine frame delivered under a transport sender "
                "that is NOT a session member must not make the receiving party emit any message type it does not emit without that frame. Non-trivial = digest with a leading zero byte or of a length other than 32. Distinct = (scheme, n, t, digest).",
        "assumptions": COMMON_ASSUME + ["bnb-chain/tss-lib v2.0.2 as pinned by the adapters' go.mod", "ECDSA key fixtures were produced by the adapters' own KeyGen (TestMakeFixtures)"],
    },
}
