# Per-property job table for /verif/check. One entry per claimed property:
# which harness module/package holds its tests, which test functions make up
# the check (jobs), how many generated cases each tier runs, and the texts
# that go into the evidence file.

COMMON_ASSUME = [
    "Go 1.26.8 toolchain, runtime and testing/synctest semantics (virtual time, durable blocking)",
    "pgregory.net/rapid v1.3.0 generators/shrinking",
    "harness network keeps each sender->receiver link FIFO and never forges Source",
    "key material comes from crypto/rand and is not a function of VERIF_SEED; schedules, configurations and fault choices are",
]

PROPS = {
    "C01": {
        "module": "core", "pkg": "./checks", "level": "exploration",
        "jobs": [
            {"test": "TestC01", "quick": 150, "thorough": 6000, "shards_thorough": 14},
        ],
        "rule": "rapid draws (n in 2..5 [thorough 6], t in 2..n, loud|silent, schedule = choice vector + link bias table, digests of length 0..64, "
                "signer set of size t..n); real LoudScheme/SilentScheme + bls.TBLS run DKG then an orchestrated signing session on a simulated "
                "FIFO-per-link network under virtual time. Oracle: all KeyGen return nil; public parameters byte-identical; every subset of size >= t "
                "(all of them, exhaustively) signs validly from the stored shares; each partial verifies under the party's published key; every Sign "
                "returns the same signature and it verifies for the requested digest. Non-trivial = the delivery trace is not the global FIFO trace "
                "(at least one frame overtakes an earlier-sent one). Distinct = hash of the whole case.",
        "assumptions": COMMON_ASSUME + ["orchestrated signing uses the harness's interactive BLS signer built from bls.TBLS.Sign and bls.Verifier.AggregateSignatures"],
    },
    "C02": {
        "module": "core", "pkg": "./checks", "level": "exploration",
        "jobs": [
            {"test": "TestC02R", "quick": 30000, "thorough": 2000000, "shards_thorough": 14},
        ],
        "rule": "Level R: rbc.Receiver instances (N in 3..5, 1..N-2 Byzantine members, >= 2 honest) wired by the harness; rapid draws honest sends, an "
                "adversary script (different payloads to different parties, acks about itself / other Byzantine / honest / the receiver / outsiders with "
                "digests of payloads in play, never-sent or random, replays of any logged frame, point-to-point) and a weighted delivery schedule. "
                "Oracle: over all hand-offs of all honest parties, at most one broadcast payload per (sender, round). Non-trivial = the adversary "
                "equivocated, forged or replayed at least once and at least one hand-off happened. Distinct = hash of the whole case.",
        "assumptions": COMMON_ASSUME,
    },
    "C03": {
        "module": "core", "pkg": "./checks", "level": "exploration",
        "jobs": [
            {"test": "TestC03R", "quick": 30000, "thorough": 2000000, "shards_thorough": 14},
        ],
        "rule": "Same generated runs as C02 (Level R). Oracle: every broadcast hand-off is non-nil, attributed to a participant, equals a payload that "
                "the attributed sender transmitted directly to this party before the hand-off, and happens at most once per (party, sender, round); "
                "every point-to-point hand-off equals the next received frame of that link. Non-trivial as for C02.",
        "assumptions": COMMON_ASSUME,
    },
    "C04": {
        "module": "core", "pkg": "./checks", "level": "exploration",
        "jobs": [
            {"test": "TestC04R", "quick": 30000, "thorough": 2000000, "shards_thorough": 14},
        ],
        "rule": "Level R, all honest, N in 2..5, up to 9 sends (broadcasts in rounds 1..3 by several senders, point-to-point), weighted delivery "
                "schedule run to quiescence. Oracle: every broadcast handed exactly once to every other party, every point-to-point message exactly "
                "once to its addressee, nothing else. Non-trivial = at least one ack was delivered before the payload it vouches for and at least two "
                "senders broadcast. Distinct = hash of the whole case.",
        "assumptions": COMMON_ASSUME,
    },
    "C11": {
        "module": "core", "pkg": "./checks", "level": "fault_enumeration",
        "jobs": [
            {"test": "TestC11Enum", "quick": 1, "thorough": 1, "shards_thorough": 14, "timeout_quick": 1500},
            {"test": "TestC11Rand", "quick": 150, "thorough": 6000, "shards_thorough": 14},
        ],
        "rule": "Full stack (LoudScheme/SilentScheme; BLS, PS and a scripted backend; KeyGen and Sign) under virtual time. For each configuration a "
                "fault-free reference run numbers every frame sent during the operation; then exhaustively: every peer P and every k (P cut off after "
                "its k-th outgoing frame, k=0 = never starts), every single withheld frame, cancellation of a caller's context at 13 points, and (sign) "
                "unusable stored share data with and without a deadline. TestC11Rand adds random configurations, schedules and faults. Oracle: every "
                "call returns (error or success) by deadline+grace of virtual time, no panic during the run or a 3-minute virtual linger, successes agree "
                "on public material. Non-trivial = the fault actually removed a frame / hit a running call. Distinct = configuration + fault.",
        "exhaustive_claim": False,
        "exhaustive_parts": "per listed configuration and reference schedule the (peer,k) and single-withheld-frame spaces are enumerated completely; configurations and schedules are a finite sample",
        "assumptions": COMMON_ASSUME + ["a vanished peer is modelled as a node whose outgoing frames are dropped after the k-th"],
    },
}
