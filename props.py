# Per-property job table for /verif/check. One entry per claimed property:
# which harness module/package holds its tests, which test functions make up
# the check (jobs), how many generated cases each tier runs, and the texts
# that go into the evidence file.

COMMON_ASSUME = [
    "Go 1.26.8 toolchain, runtime and testing/synctest semantics (virtual time, durable blocking)",
    "pgregory.net/rapid v1.3.0 generators/shrinking",
    "harness network keeps each sender->receiver link FIFO and never forges Source",
    "key material comes from crypto/rand and is not a function of VERIF_SEED; schedules, configurations and fault choices are",
]

PROPS = {
    "C01": {
        "module": "core", "pkg": "./checks", "level": "exploration",
        "jobs": [
            {"test": "TestC01", "quick": 150, "thorough": 6000, "shards_thorough": 14},
        ],
        "rule": "rapid draws (n in 2..5 [thorough 6], t in 2..n, loud|silent, schedule = choice vector + link bias table, digests of length 0..64, "
                "signer set of size t..n); real LoudScheme/SilentScheme + bls.TBLS run DKG then an orchestrated signing session on a simulated "
                "FIFO-per-link network under virtual time. Oracle: all KeyGen return nil; public parameters byte-identical; every subset of size >= t "
                "(all of them, exhaustively) signs validly from the stored shares; each partial verifies under the party's published key; every Sign "
                "returns the same signature and it verifies for the requested digest. Non-trivial = the delivery trace is not the global FIFO trace "
                "(at least one frame overtakes an earlier-sent one). Distinct = hash of the whole case.",
        "assumptions": COMMON_ASSUME + ["orchestrated signing uses the harness's interactive BLS signer built from bls.TBLS.Sign and bls.Verifier.AggregateSignatures"],
    },
}
