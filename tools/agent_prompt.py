#!/usr/bin/env python3
"""Prints the prompt given to a mutation sub-agent for one property (only the property text + a scratch worktree)."""
import json, sys
pid, wt = sys.argv[1], sys.argv[2]
n = sys.argv[3] if len(sys.argv) > 3 else "2"
out = sys.argv[4] if len(sys.argv) > 4 else pid
avoid = sys.argv[5] if len(sys.argv) > 5 else ""
p = [json.loads(l) for l in open('/verif/properties.jsonl') if json.loads(l)['id'] == pid][0]
print(f"""You are helping to evaluate a verification effort for the Go library IBM/TSS (threshold signatures: DKG/signing orchestration over reliable Byzantine broadcast and membership sync, threshold BLS and Pointcheval-Sanders, TLS transport, tss-lib adapters).

Your scratch copy of the repository is the git worktree at {wt} (work ONLY there and in /tmp/seed-out/{out}/; never touch /repo or /verif, and do not read /verif). The sandbox has no network. For every go command use:
  export GOFLAGS=-mod=mod GOPROXY=off GOSUMDB=off GOTOOLCHAIN=local
The repository has several Go modules (., mpc/bls, mpc/ps, mpc/binance/ecdsa, mpc/binance/eddsa, test); run `go test ./...` inside the module you change. (The `test` module links most packages from the module cache, not from the tree, so it is not affected by your edits.)

Here is one semantic property that the library is supposed to satisfy:

  id: {p['id']}
  title: {p['title']}
  statement: {p['statement']}
  quantifier: {p['quantifier']['text']}
  anchored in: {', '.join(p['anchors']['files'])}
  mechanisms: {'; '.join(m['name'] + ' (' + m.get('where','') + ')' for m in p['anchors']['mechanism'])}

TASK: produce {n} DIFFERENT, independent, realistic code changes ("seeded bugs") to the library's non-test source that each BREAK this property, while the code still compiles and the module's EXISTING unit tests (unedited) still pass. Think of plausible maintainer mistakes: an off-by-one, a dropped check, a reordered step, a wrong index/variable, a lock released too early, a missing cleanup, a comparison on the wrong field. Prefer changes that need something SPECIFIC to manifest (a particular interleaving or delivery order, a fault at a particular point, a multi-step sequence, an unusual input/configuration such as particular sizes or identifiers, or two cooperating sites that each look fine alone) over ones that any ordinary use exposes immediately. Each change must be small (a few lines), must only touch non-test .go files, and must be a genuine violation of the property as stated (not merely of some other behaviour).

{("Earlier rounds already produced the following changes; produce DIFFERENT ideas at different sites or of a different nature: " + avoid + chr(10) + chr(10)) if avoid else ""}For EACH change i = 1..{n}:
 1. Start from a clean tree (git -C {wt} checkout -- . ; git -C {wt} clean -fdq).
 2. Make the change. Verify `go build ./...` and the existing `go test -count=1 ./...` of the affected module(s) pass (binance ecdsa tests are slow, ~1-2 min; that is fine).
 3. Write a demonstration: a NEW Go test file (e.g. <pkg>/seeded_demo_test.go) or small program that FAILS with the change and PASSES without it. Verify both directions yourself (run it on the changed tree; then save your change with `git diff > /tmp/seed-out/{out}/cur.diff`, `git checkout -- .`, run the demo again, and re-apply with `git apply`. NEVER use `git stash`: the stash is shared with other worktrees of this repository and other people are working in them). The demonstration should fail because the property is violated, deterministically or with high probability within a minute.
 4. Save into /tmp/seed-out/{out}/m<i>/ : patch.diff (output of `git diff` for the library change ONLY, without the demo file), the demo file(s), and notes.md saying: what the change is, why it violates the property, what specific condition is needed for it to manifest, exact commands you ran for the demo in both directions with their outcome, and confirmation that the existing tests pass.
 5. Restore the tree before the next change.

When done, reply with a short summary listing each change (file, one-line description, what it needs to manifest, how the demo fails) and the paths under /tmp/seed-out/{out}/. Do not leave build caches or large files in {wt}. If you cannot find a change that keeps the existing tests green for some idea, pick another idea rather than editing tests.""")
