#!/bin/bash
# usage: tools/all_seeds.sh [parallel]   - runs every kept seeded change against the check of its property (scratch worktrees)
# writes /root/logs/allseeds/<id>.log and a summary line per seed
P=${1:-5}
mkdir -p /root/logs/allseeds
cd /verif
ls seeded | grep -v _incoming | while read id; do
  prop=${id%%-*}
  echo "$id $prop"
done | xargs -P $P -L 1 bash -c 'id=$0; prop=$1; NOREGRESS=1 TAILN=3 tools/mutrun.sh seeded/$id/patch.diff $prop quick 1 > /root/logs/allseeds/$id.log 2>&1; if grep -q "patch does not apply" /root/logs/allseeds/$id.log; then echo "$id NOAPPLY"; elif grep -q "^VIOLATION" /root/logs/allseeds/$id.log; then echo "$id CAUGHT"; else echo "$id MISSED"; fi'
