#!/bin/bash
# Runs the repository's own test suite (guard off) for every module; prints FAIL lines and a summary.
export GOFLAGS=-mod=mod GOPROXY=off GOSUMDB=off GOTOOLCHAIN=local
rc=0
for m in . mpc/bls mpc/ps mpc/binance/ecdsa mpc/binance/eddsa test; do
  out=$(cd /repo/$m && go test -vet=off -count=1 -timeout 25m ./... 2>&1)
  if echo "$out" | grep -qE "^(FAIL|--- FAIL|panic:)"; then echo "== $m: FAIL"; echo "$out" | grep -E "^(FAIL|--- FAIL|panic:|ok)" | head -20; rc=1; else echo "== $m: ok ($(echo "$out" | grep -c '^ok') packages)"; fi
done
git -C /repo status --short | head
exit $rc
