#!/bin/bash
# usage: confirm_seed.sh <incoming-dir> <module-dir-rel> <pkg-dir-rel> <demo-test-regex> [extra go test args]
# Confirms a seeded change in a scratch worktree: existing tests pass with it, the demo fails with it and passes without it.
set -u
in="$1"; mod="$2"; pkg="$3"; re="$4"; shift 4
export GOFLAGS=-mod=mod GOPROXY=off GOSUMDB=off GOTOOLCHAIN=local
wt=/tmp/wt-confirm-$$
git -C /repo worktree add -q --detach "$wt" HEAD || exit 2
trap 'git -C /repo worktree remove --force "$wt"' EXIT
cd "$wt" || exit 2
if ! git apply "$in/patch.diff"; then echo "RESULT patch does not apply"; exit 1; fi
echo "--- existing tests with the change ($mod)"
(cd "$wt/$mod" && go test -vet=off -count=1 -timeout 20m ./... 2>&1 | grep -a -E "^(ok|FAIL|---|panic)" | head -20)
existing=$?
cp "$in"/*_test.go "$wt/$pkg/" 2>/dev/null
echo "--- demo with the change (expect FAIL)"
(cd "$wt/$pkg" && go test -vet=off -count=1 -timeout 10m -run "$re" "$@" . 2>&1 | grep -a -E "^(ok|FAIL|--- FAIL|panic)" | head -8)
git apply -R "$in/patch.diff"
echo "--- demo without the change (expect ok)"
(cd "$wt/$pkg" && go test -vet=off -count=1 -timeout 10m -run "$re" "$@" . 2>&1 | grep -a -E "^(ok|FAIL|--- FAIL|panic)" | head -8)
