#!/usr/bin/env python3
"""keep_seed.py <incoming-dir> <seed-id> <property> <module> <pkg> <demo-regex> <needs> <detected-by> <detection-note>
Stores a confirmed seeded change under /verif/seeded/<seed-id>/ (patch.diff, demo, notes, meta.json)."""
import sys, os, shutil, json, subprocess
inc, sid, prop, mod, pkg, regex, needs, detected_by, note = sys.argv[1:10]
dst = os.path.join('/verif/seeded', sid)
os.makedirs(dst, exist_ok=True)
for f in os.listdir(inc):
    if f.endswith('.diff') or f.endswith('_test.go') or f == 'notes.md' or f.endswith('.go'):
        shutil.copy(os.path.join(inc, f), os.path.join(dst, f if not f.endswith('_test.go') else f + '.txt'))
head = subprocess.check_output(['git', '-C', '/repo', 'log', '--format=%h', '-1']).decode().strip()
meta = {
    "id": sid, "property": prop, "breaks": prop,
    "needs_to_manifest": needs,
    "source": "independent sub-agent given only the property text and a scratch worktree",
    "confirmed": {
        "repo_commit": head,
        "ran": [
            "tools/confirm_seed.sh %s %s %s '%s'  (scratch worktree: existing tests of %s pass with the change; demo fails with it and passes without it)" % (inc, mod, pkg, regex, mod),
            "tools/mut.sh seeded/%s/patch.diff %s quick  (apply to /repo, run the check, git checkout -- .)" % (sid, detected_by.split()[0] if detected_by else prop),
        ],
    },
    "detected_by": detected_by, "detection": note,
    "demo_files_note": "demo test files are stored with a .txt suffix so that they are never compiled from /verif",
}
json.dump(meta, open(os.path.join(dst, 'meta.json'), 'w'), indent=1)
print("kept", dst)
