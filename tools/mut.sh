#!/bin/bash
# usage: tools/mut.sh <patch-file | -R:<commit>> <prop> [tier] [seeds...]
# Applies a change to /repo's working tree, runs the check, restores the tree.
set -u
patch="$1"; prop="$2"; tier="${3:-quick}"; shift 3 2>/dev/null || shift $#
seeds="${*:-1}"
cd /repo || exit 2
if ! git diff --quiet; then echo "/repo has uncommitted changes"; exit 2; fi
if [[ "$patch" == -R:* ]]; then
  git show "${patch#-R:}" | git apply -R || { echo "cannot revert"; exit 2; }
else
  git apply "$patch" || { echo "patch does not apply"; exit 2; }
fi
trap 'git -C /repo checkout -- . ; git -C /repo clean -fdq' EXIT
cd /verif
for s in $seeds; do
  VERIF_SCRATCH_EVIDENCE=1 VERIF_NO_REGRESS=${NOREGRESS:-0} VERIF_SEED=$s ./check "$prop" "$tier" 2>&1 | grep -E "^(VIOLATION|KNOWN|INCONCLUSIVE|C[0-9]+ )" | cut -c1-300
done
