#!/bin/bash
# usage: tools/mutrun.sh <patch.diff> <Cxx> <tier> [seed...]
# Like mut.sh, but never touches /repo: the change is applied in a scratch worktree and the check is built
# against that tree (VERIF_REPO). Safe to run several at once and beside checks of the real tree.
patch=$(readlink -f "$1"); prop=$2; tier=${3:-quick}; shift 3
seeds=${*:-1}
wt=$(mktemp -d /tmp/mr-XXXXXX); rmdir "$wt"
git -C /repo worktree add -q --detach "$wt" HEAD || exit 2
trap 'git -C /repo worktree remove --force "$wt"; rm -rf "$wt"' EXIT
if ! git -C "$wt" apply "$patch"; then echo "patch does not apply"; exit 2; fi
cd /verif
for s in $seeds; do
  env VERIF_REPO=$wt VERIF_SEED=$s VERIF_NO_REGRESS=${NOREGRESS:-0} ./check "$prop" "$tier" 2>&1 | grep -v "^\s*$" | tail -${TAILN:-6}
  echo "== $(basename $(dirname $patch))/$prop/$tier seed=$s exit=${PIPESTATUS[0]}"
done
